#!/bin/bash
# Idempotent, offline bootstrap of third-party deps the checks need beside /venv:
#   scipy (qucumber.utils.training_statistics imports it; /venv lacks it) and, if /venv ever lacks it, hypothesis.
# Installed with --no-deps into /verif/.deps (git-ignored); /venv itself is never modified.
set -u
cd "$(dirname "$0")"
V=$(pwd)
WH=/opt/veriftools/wheels
PY=/venv/bin/python
mkdir -p "$V/.deps" "$V/evidence" "$V/replays"
exec 9>"$V/.deps/.lock"
flock 9
need() { PYTHONPATH="$V/.deps" $PY -c "import $1" >/dev/null 2>&1 && return 1 || return 0; }
if need scipy; then
  PIP_NO_INDEX=1 /venv/bin/pip install -q --no-index --no-deps --find-links "$WH" --target "$V/.deps" scipy >&2 || exit 2
fi
if need hypothesis; then
  PIP_NO_INDEX=1 /venv/bin/pip install -q --no-index --find-links "$WH" --target "$V/.deps" hypothesis >&2 || exit 2
fi
exit 0
