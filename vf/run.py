"""CLI: python -m vf.run <ID> <quick|thorough> | --replay <file>.

Parent process: no torch import; forks (spawn) up to 16 shard workers, merges their counters, writes
evidence/<ID>.json, prints VIOLATION / KNOWN-FINDING lines, chooses the exit code.
"""
import importlib
import json
import os
import sys
import time
import traceback
from collections import Counter
from concurrent.futures import ProcessPoolExecutor
import multiprocessing as mp

from vf import common
from vf.common import PropertyViolation

NPROC = int(os.environ.get("VERIF_NPROC", "16"))
MAX_BUCKET_ROUNDS = 4


def load_prop(prop):
    return importlib.import_module(f"vf.props.{prop.lower()}")


def _quiet_worker():
    # everything the code under test prints (Timer, verbose evaluators) goes to /dev/null, so no stray
    # line can look like a verdict; results travel through the executor pipe.
    devnull = os.open(os.devnull, os.O_WRONLY)
    os.dup2(devnull, 1)
    import warnings
    warnings.filterwarnings("ignore")


def run_shard(task):
    """Runs in a worker. task = dict(prop, sub, tier, seed, n, shard, nshards, budget_s)."""
    import torch
    torch.set_num_threads(1)
    torch.set_default_dtype(torch.float32)  # library default; reference model is explicit about float64
    t0 = time.monotonic()
    out = dict(sub=task["sub"], evaluations=0, hashes=[], labels=Counter(), samples=[], violations=[],
               known=Counter(), excluded=0, budget_hit=False, error=None, shard=task["shard"],
               exhaustive=False, health=None)
    try:
        mod = load_prop(task["prop"])
        sub = next(s for s in mod.SUBCHECKS if s.name == task["sub"])
        known = common.load_known()
        deadline = t0 + task["budget_s"]
        seen = set()
        swallow = set()
        state = {"last": None}

        def one(case):
            state["last"] = case
            try:
                try:
                    info = sub.check(case) or {}
                    common.global_invariants()
                except PropertyViolation:
                    raise
                except Exception as e:
                    if common.raised_by_lib(e):
                        raise common.to_violation(e) from e
                    raise
            except PropertyViolation as v:
                kf = common.match_known(known, task["prop"], v, case)
                if kf is not None:
                    out["known"][kf.get("what", kf.get("bucket", "?"))] += 1
                    out["excluded"] += 1
                    return
                if v.bucket in swallow:
                    out["excluded"] += 1
                    return
                raise
            out["evaluations"] += 1
            out["excluded"] += int(info.get("excluded", 0))
            for lab in list(sub.labels(case)) + list(info.get("labels", [])):
                out["labels"][lab] += 1
            nt = sub.nontrivial(case) and info.get("nontrivial", True)
            if nt:
                h = common.case_hash(case)
                if h not in seen:
                    seen.add(h)
                    if len(out["samples"]) < 2:
                        out["samples"].append(common.short(case))

        def record(v, case=None):
            case = state["last"] if case is None else case
            out["violations"].append(dict(bucket=v.bucket, message=v.message, detail=v.detail, case=case))
            swallow.add(v.bucket)

        if sub.enumerate is not None and sub.strategy is None:
            cases = sub.enumerate(task["tier"])
            mine = cases[task["shard"]::task["nshards"]]
            done_all = True
            for case in mine:
                if time.monotonic() > deadline:
                    out["budget_hit"] = True
                    done_all = False
                    break
                try:
                    one(case)
                except PropertyViolation as v:
                    record(v)
                    if len(out["violations"]) >= MAX_BUCKET_ROUNDS:
                        done_all = False
                        break
            out["exhaustive"] = done_all
        else:
            import hypothesis
            from hypothesis import HealthCheck, Phase, given, settings
            phases = [Phase.explicit, Phase.generate]
            if task["tier"] == "thorough":
                phases.append(Phase.shrink)
            for rnd in range(MAX_BUCKET_ROUNDS):
                st = settings(max_examples=max(1, task["n"]), database=None, deadline=None, derandomize=False,
                              report_multiple_bugs=False, phases=phases,
                              suppress_health_check=[HealthCheck.too_slow, HealthCheck.data_too_large,
                                                     HealthCheck.large_base_example],
                              verbosity=hypothesis.Verbosity.quiet)

                failing = [False]
                first_fail = []

                def body(case):
                    # the wall-clock budget only limits *generation*; once a failure is being shrunk the
                    # budget is ignored so the shrinker sees a deterministic test
                    if not failing[0] and time.monotonic() > deadline:
                        out["budget_hit"] = True
                        return
                    try:
                        one(case)
                    except PropertyViolation as v:
                        failing[0] = True
                        if not first_fail:
                            first_fail.append((case, v))
                        raise

                test = hypothesis.seed(task["seed"] + 7919 * rnd)(st(given(sub.strategy(task["tier"]))(body)))
                try:
                    test()
                    break
                except hypothesis.errors.Flaky:
                    # the same generated case violated the property in one execution and not in another: the code under test keeps
                    # state between executions (a process-wide cache, a shared tensor).  The violation was observed on the real code,
                    # so it is reported - with the case on which it was first seen - rather than treated as a harness problem.
                    if not first_fail:
                        raise
                    fc, fv = first_fail[0]
                    record(PropertyViolation("not-repeatable:" + fv.bucket, "(the outcome of this case depends on what the process executed before) " + fv.message, fv.detail), fc)
                    break
                except PropertyViolation as v:
                    record(v)
                    if task["tier"] != "thorough":
                        break
                    # thorough: look for further root causes behind this one (failures of this bucket are
                    # swallowed and counted as excluded)
        out["hashes"] = list(seen)
    except Exception as e:  # harness problem: never a verdict
        out["error"] = f"{type(e).__name__}: {e}\n" + traceback.format_exc()[-3000:]
    out["wall_s"] = time.monotonic() - t0
    out["labels"] = dict(out["labels"])
    out["known"] = dict(out["known"])
    return out


def replay_file(path):
    with open(path) as f:
        rec = json.load(f)
    mod = load_prop(rec["property"])
    sub = next(s for s in mod.SUBCHECKS if s.name == rec["sub"])
    try:
        try:
            sub.check(rec["case"])
        except PropertyViolation:
            raise
        except Exception as e:
            if common.raised_by_lib(e):
                raise common.to_violation(e) from e
            raise
    except PropertyViolation as v:
        return rec, v
    return rec, None


def run_regressions(prop):
    """Committed replays of defects already repaired: executed first in every run, both tiers."""
    d = os.path.join(common.VERIF_DIR, "regressions", prop)
    res = []
    if os.path.isdir(d):
        for fn in sorted(os.listdir(d)):
            if fn.endswith(".json"):
                p = os.path.join(d, fn)
                rec, v = replay_file(p)
                res.append((os.path.relpath(p, common.VERIF_DIR), rec, v))
    return res


def regress_worker(prop):
    import torch
    torch.set_num_threads(1)
    try:
        return [(p, rec["sub"], (v.bucket, v.message) if v else None) for p, rec, v in run_regressions(prop)], None
    except Exception as e:
        return [], f"{type(e).__name__}: {e}\n" + traceback.format_exc()[-3000:]


def main(argv):
    if len(argv) >= 2 and argv[0] == "--replay":
        _quiet = False
        try:
            rec, v = replay_file(argv[1])
        except Exception as e:
            print(f"HARNESS-ERROR: replay failed: {type(e).__name__}: {e}")
            traceback.print_exc()
            return 2
        if v is not None:
            print(f"replay: {v.bucket}: {v.message}")
            print(f"VIOLATION property={rec['property']} replay={argv[1]}")
            return 1
        print(f"replay: property {rec['property']} holds on this case")
        return 0
    if len(argv) < 1:
        print("usage: check <ID> <quick|thorough> | --replay <file>")
        return 2
    prop = argv[0].upper()
    tier = argv[1] if len(argv) > 1 else os.environ.get("VERIF_TIER", "quick")
    if tier not in ("quick", "thorough"):
        print("HARNESS-ERROR: tier must be quick or thorough")
        return 2
    seed = int(os.environ.get("VERIF_SEED", "1"))
    t0 = time.monotonic()
    try:
        mod = load_prop(prop)
    except Exception as e:
        print(f"HARNESS-ERROR: cannot load property module: {type(e).__name__}: {e}")
        traceback.print_exc()
        return 2

    budget = float(os.environ.get("VERIF_BUDGET_S", getattr(mod, "BUDGET_S", {}).get(tier, 90 if tier == "quick" else 3000)))
    tasks = []
    for si, sub in enumerate(mod.SUBCHECKS):
        n = sub.quick if tier == "quick" else sub.thorough
        if sub.enumerate is not None and sub.strategy is None:
            nsh = NPROC
            for sh in range(nsh):
                tasks.append(dict(prop=prop, sub=sub.name, tier=tier, seed=seed, n=0, shard=sh, nshards=nsh, budget_s=budget))
        else:
            if n <= 0:
                continue
            nsh = max(1, min(NPROC, n // sub.per_shard))
            per = -(-n // nsh)
            for sh in range(nsh):
                tasks.append(dict(prop=prop, sub=sub.name, tier=tier, seed=seed * 100003 + si * 1009 + sh, n=per,
                                  shard=sh, nshards=nsh, budget_s=budget))
    results = []
    ctx = mp.get_context("spawn")
    with ProcessPoolExecutor(max_workers=NPROC, mp_context=ctx, initializer=_quiet_worker) as ex:
        reg_f = ex.submit(regress_worker, prop)
        futs = [ex.submit(run_shard, t) for t in tasks]
        regs, reg_err = reg_f.result()
        for f in futs:
            results.append(f.result())

    errors = [r["error"] for r in results if r["error"]]
    if reg_err:
        errors.append(reg_err)
    evaluations = sum(r["evaluations"] for r in results) + len(regs)
    per_sub = {}
    all_hashes = set()
    labels = Counter()
    known = Counter()
    samples = []
    excluded = 0
    budget_hit = False
    for r in results:
        ps = per_sub.setdefault(r["sub"], dict(evaluations=0, distinct_nontrivial=0, _h=set(), exhaustive=None))
        ps["evaluations"] += r["evaluations"]
        ps["_h"].update(r["hashes"])
        all_hashes.update((r["sub"], h) for h in r["hashes"])
        labels.update({f"{r['sub']}:{k}": v for k, v in r["labels"].items()})
        known.update(r["known"])
        excluded += r["excluded"]
        budget_hit = budget_hit or r["budget_hit"]
        sub = next(s for s in mod.SUBCHECKS if s.name == r["sub"])
        if sub.enumerate is not None and sub.strategy is None:
            ps["exhaustive"] = (ps["exhaustive"] is not False) and r["exhaustive"]
        for s in r["samples"]:
            if sum(1 for x in samples if x["sub"] == r["sub"]) < 2:
                samples.append({"sub": r["sub"], "case": s})
    for ps in per_sub.values():
        ps["distinct_nontrivial"] = len(ps.pop("_h"))
        if ps["exhaustive"] is None:
            ps.pop("exhaustive")

    # violations: one replay file per distinct (sub, bucket)
    viols = {}
    for r in results:
        for v in r["violations"]:
            viols.setdefault((r["sub"], v["bucket"]), v)
    lines = []
    for (subn, bucket), v in sorted(viols.items()):
        path = common.write_replay(prop, subn, bucket, v["message"], v["case"], v.get("detail"))
        lines.append((path, subn, bucket, v["message"]))
    for p, subn, v in regs:
        if v is not None:
            lines.append((p, subn, v[0], "regression replay fails again: " + v[1]))

    wall = time.monotonic() - t0
    evidence = {
        "property_id": prop, "tier": tier, "seed": seed, "level": "exploration",
        "coverage": {
            "evaluations": int(evaluations),
            "distinct_nontrivial": int(len(all_hashes)),
            "rule": getattr(mod, "RULE", ""),
            "samples": samples[:8],
            "per_subcheck": per_sub,
            "label_histogram": dict(sorted(labels.items())),
            "excluded_by_domain_rule_or_known_finding": int(excluded),
            "regression_replays_run": len(regs),
            "known_findings_hit": dict(known),
            "budget_hit_inconclusive": bool(budget_hit),
            "exhaustive": bool(per_sub) and all(ps.get("exhaustive") is True for ps in per_sub.values()),
            "exhaustive_subchecks": sorted(k for k, ps in per_sub.items() if ps.get("exhaustive") is True),
        },
        "assumptions": getattr(mod, "ASSUMPTIONS", []),
        "wall_s": round(wall, 2),
        "violations": len(lines),
    }
    if errors:
        evidence["coverage"]["harness_errors"] = [e[:500] for e in errors[:3]]
    os.makedirs(os.path.join(common.OUT_DIR, "evidence"), exist_ok=True)
    with open(os.path.join(common.OUT_DIR, "evidence", f"{prop}.json"), "w") as f:
        json.dump(evidence, f, indent=1, sort_keys=True, default=common._json_default)

    # every OPEN finding listed for this property is announced on every run (with the number of generated cases it excluded), and its stored
    # reproduction is executed: the finding is never added to at run time, and a violation its predicate does not cover is reported as usual
    for e in common.load_known():
        if e.get("status") != "open" or e.get("property") != prop:
            continue
        what = e.get("what", e.get("bucket", "?"))
        repro = ""
        if e.get("replay"):
            try:
                rec, v = replay_file(os.path.join(common.VERIF_DIR, e["replay"]))
                repro = "; stored reproduction still fails" if v is not None else "; stored reproduction NO LONGER fails on this tree"
            except Exception as ex:      # noqa: BLE001
                repro = f"; stored reproduction could not be run ({type(ex).__name__})"
        print(f"KNOWN-FINDING: property={prop} {what} (generated cases excluded by it in this run: {known.get(what, 0)}{repro})")
    print(f"{prop} {tier} seed={seed}: evaluations={evaluations} distinct_nontrivial={len(all_hashes)} "
          f"excluded={excluded} wall={wall:.1f}s" + (" [budget hit: inconclusive beyond this point]" if budget_hit else ""))
    for k, ps in per_sub.items():
        print(f"  {k}: {ps}")
    if lines:
        for path, subn, bucket, msg in lines:
            print(f"  violation in {subn}: [{bucket}] {msg[:600]}")
        for path, subn, bucket, msg in lines:
            print(f"VIOLATION property={prop} replay={path}")
        return 1
    if errors:
        print("HARNESS-ERROR:")
        for e in errors[:3]:
            print(e)
        return 2
    return 0


if __name__ == "__main__":
    try:
        rc = main(sys.argv[1:])
        sys.stdout.flush()
    except BrokenPipeError:
        rc = 2
        try:
            sys.stdout.close()
        except Exception:
            pass
    sys.exit(rc)
