"""Shared plumbing: violations, library-call wrappers, hashing, known findings, replay files."""
import hashlib
import json
import os
import re
import traceback

VERIF_DIR = os.environ.get("VERIF_DIR", os.path.dirname(os.path.dirname(os.path.abspath(__file__))))
REPO = os.path.realpath(os.environ.get("VERIF_REPO", "/repo"))
LIB_DIR = os.path.join(REPO, "qucumber") + os.sep
# evidence/ and replays/ go below OUT_DIR (= /verif unless the mutation audit redirects them to its scratch dir)
OUT_DIR = os.environ.get("VERIF_OUT", VERIF_DIR)


class PropertyViolation(Exception):
    """The code under test broke the stated property on a concrete case."""

    def __init__(self, bucket, message, detail=None):
        super().__init__(f"[{bucket}] {message}")
        self.bucket = str(bucket)
        self.message = str(message)
        self.detail = detail


class Sub:
    """One generated check of a property (a strategy or an enumeration + an oracle)."""

    def __init__(self, name, check, strategy=None, enumerate=None, quick=200, thorough=2000,
                 nontrivial=None, labels=None, doc="", per_shard=20):
        self.name = name
        self.check = check              # check(case) -> None | dict(nontrivial=bool, labels=[...], excluded=int)
        self.strategy = strategy        # strategy(tier) -> hypothesis SearchStrategy of JSON-able cases
        self.enumerate = enumerate      # enumerate(tier) -> list of JSON-able cases (finite sub-domain)
        self.quick = quick              # number of generated cases, quick tier
        self.thorough = thorough
        self.nontrivial = nontrivial or (lambda case: True)
        self.labels = labels or (lambda case: [])
        self.doc = doc
        self.per_shard = per_shard      # minimum number of generated cases per shard process (expensive checks: small)


def fail(bucket, message, **detail):
    raise PropertyViolation(bucket, message, detail or None)


def require(cond, bucket, message, **detail):
    if not cond:
        raise PropertyViolation(bucket, message, detail or None)


def lib_frame(exc):
    """Innermost traceback frame of `exc` that lies inside the code under test, or None."""
    tb = traceback.extract_tb(exc.__traceback__)
    for fr in reversed(tb):
        if os.path.realpath(fr.filename).startswith(LIB_DIR):
            return f"{os.path.relpath(os.path.realpath(fr.filename), REPO)}:{fr.name}"
    return None


def raised_by_lib(exc):
    return lib_frame(exc) is not None


def to_violation(exc, where=""):
    """Convert an unexpected exception that passed through library frames into a PropertyViolation."""
    fr = lib_frame(exc)
    msg = f"{type(exc).__name__}: {exc}"
    return PropertyViolation(f"exception:{type(exc).__name__}@{fr}{('/' + where) if where else ''}",
                             "library raised on an input it must accept: " + msg[:400])


def expect_raises(types, fn, bucket, what):
    """The documented contract is 'raises <types>' - anything else (incl. returning) is a violation."""
    try:
        fn()
    except types:
        return
    except PropertyViolation:
        raise
    except Exception as e:  # wrong exception type
        raise PropertyViolation(bucket, f"{what}: expected {types}, got {type(e).__name__}: {e}"[:400])
    raise PropertyViolation(bucket, f"{what}: expected {types}, but the call returned normally")


def canon(obj):
    return json.dumps(obj, sort_keys=True, separators=(",", ":"), default=_json_default)


def _json_default(o):
    import numpy as np
    if isinstance(o, (np.integer,)):
        return int(o)
    if isinstance(o, (np.floating,)):
        return float(o)
    if isinstance(o, np.ndarray):
        return o.tolist()
    raise TypeError(f"not JSON-able: {type(o)}")


def case_hash(case):
    return int.from_bytes(hashlib.sha1(canon(case).encode()).digest()[:8], "big")


def short(case, limit=3000):
    s = canon(case)
    if len(s) <= limit:
        return json.loads(s)
    return {"truncated_json": s[:limit] + "...", "full_length": len(s)}


# ---------------------------------------------------------------------------------------------
# known findings (committed file, never written at run time)

def load_known():
    p = os.path.join(VERIF_DIR, "known_findings.json")
    if not os.path.exists(p):
        return []
    with open(p) as f:
        return json.load(f).get("findings", [])


def _pred_match(pred, case):
    for k, v in (pred or {}).items():
        cur = case
        for part in k.split("."):
            if isinstance(cur, dict) and part in cur:
                cur = cur[part]
            else:
                return False
        if cur != v:
            return False
    return True


KNOWN_PREDICATES = {}      # name -> function(case) -> bool, registered by the property modules (computed predicates of open findings)


def match_known(known, prop, viol, case):
    """An *open* entry matches by property, bucket regex AND predicate over the case (key equality and / or a named computed predicate:
    a violation of the same property on a case the predicate does not cover is still reported)."""
    for e in known:
        if e.get("status") != "open" or e.get("property") != prop:
            continue
        if not re.search(e.get("bucket", ""), viol.bucket):
            continue
        if not _pred_match(e.get("predicate"), case):
            continue
        fn = e.get("predicate_fn")
        if fn is not None:
            f = KNOWN_PREDICATES.get(fn)
            if f is None or not f(case):
                continue
        return e
    return None


# ---------------------------------------------------------------------------------------------
# replay files

def write_replay(prop, sub, viol_bucket, message, case, detail=None):
    d = os.path.join(OUT_DIR, "replays", prop)
    os.makedirs(d, exist_ok=True)
    h = hashlib.sha1((sub + "|" + viol_bucket).encode()).hexdigest()[:10]
    path = os.path.join(d, f"{sub}-{h}.json")
    with open(path, "w") as f:
        json.dump({"property": prop, "sub": sub, "bucket": viol_bucket, "message": message,
                   "detail": detail, "case": case}, f, indent=1, sort_keys=True, default=_json_default)
    return os.path.relpath(path, OUT_DIR)


def global_invariants():
    """Library-wide shared state that no operation of any property may alter (checked by the runner after every case).
    The imaginary-unit constant cplx.I is used by gradients, observables and the complex kernel alike: if any library call
    changes it in place, every later result in the process is silently wrong."""
    try:
        from qucumber.utils import cplx
    except Exception:
        return
    if cplx.I.tolist() != [0.0, 1.0]:
        bad = cplx.I.tolist()
        cplx.I.copy_(cplx.I.new_tensor([0.0, 1.0]))      # restore so that the search can continue behind this finding
        raise PropertyViolation("global:shared-constant-cplx.I-changed", f"a library call changed the shared imaginary-unit constant cplx.I in place (now {bad})")
    # process-wide numerical settings of torch that silently change every later result of the process (and of the user's own code)
    import torch
    if torch.get_default_dtype() != torch.float32:
        bad = torch.get_default_dtype()
        torch.set_default_dtype(torch.float32)
        raise PropertyViolation("global:torch-default-dtype-changed", f"a library call changed torch's process-wide default dtype to {bad}")
    if not torch.is_grad_enabled():
        torch.set_grad_enabled(True)
        raise PropertyViolation("global:torch-grad-mode-changed", "a library call left autograd disabled for the whole process")
    if torch.are_deterministic_algorithms_enabled():
        torch.use_deterministic_algorithms(False)
        raise PropertyViolation("global:torch-deterministic-mode-changed", "a library call switched on torch's process-wide deterministic-algorithms mode")
