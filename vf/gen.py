"""Hypothesis strategies (JSON-able cases) and builders that turn a case into real library objects."""
import itertools

import numpy as np
import torch
from hypothesis import strategies as st

from vf import refmodel as R

SCALES = [0.0, 0.05, 0.5, 0.5, 2.0, 2.0, 8.0, 8.0, 30.0]
BIAS_SCALES = [0.0, 0.05, 0.5, 0.5, 2.0, 2.0, 8.0, 8.0, 30.0, 30.0]  # zero biases stay reachable but rare
TYPES = ["positive", "complex", "density"]


# ------------------------------------------------------------------ numbers

def flist(k, s):
    if s == 0 or k == 0:
        return st.just([0.0] * k)
    fl = st.floats(min_value=-s, max_value=s, allow_nan=False, allow_infinity=False, width=64)
    generic = st.lists(fl, min_size=k, max_size=k)
    # structured value regimes: all entries equal; all of the same magnitude with alternating sign; all at the extreme of the range
    equal = fl.map(lambda v: [v] * k)
    alternating = fl.map(lambda v: [v if i % 2 == 0 else -v for i in range(k)])
    extreme = st.lists(st.sampled_from([-s, s]), min_size=k, max_size=k).map(lambda v: [float(x) for x in v])
    return st.one_of(generic, generic, generic, generic, generic, equal, alternating, extreme)


def fmat(r, c, s):
    return flist(r * c, s).map(lambda v: [v[i * c:(i + 1) * c] for i in range(r)])


@st.composite
def net_params(draw, n, nh, na=None, scales=SCALES, zero_d=False, bias_scales=None):
    """Parameters of one RBM; every tensor gets its own drawn scale; biases are drawn like weights."""
    bs = bias_scales or (BIAS_SCALES if scales is SCALES else scales)
    d = {"W": draw(fmat(nh, n, draw(st.sampled_from(scales)))),
         "b": draw(flist(n, draw(st.sampled_from(bs)))),
         "c": draw(flist(nh, draw(st.sampled_from(bs))))}
    if na is not None:
        d["U"] = draw(fmat(na, n, draw(st.sampled_from(scales))))
        d["d"] = [0.0] * na if zero_d else draw(flist(na, draw(st.sampled_from(bs))))
    return d


def _net_bound(net):
    tot = 0.0
    for v in net.values():
        tot += float(np.abs(np.asarray(v, dtype=float)).sum())
    return tot


def rescale_case(case, bound):
    """Overflow guard by construction (not rejection): the library works with exp(-E) in double precision,
    so when the (cheap upper bound on the) log-weight magnitude exceeds `bound` every parameter of that
    network is scaled down by the same factor.  The factor is stored in the case."""
    for key in ("am", "ph"):
        net = case.get(key)
        if not net:
            continue
        b = _net_bound(net)
        if b > bound:
            f = bound / b
            for k in net:
                net[k] = (np.asarray(net[k], dtype=float) * f).tolist()
            case.setdefault("rescaled", {})[key] = f
    return case


@st.composite
def state_case(draw, types=TYPES, n=(1, 4), nh=(1, 4), na=(1, 3), scales=SCALES, bound=300.0,
               unitaries=False):
    t = draw(st.sampled_from(types))
    nv = draw(st.integers(*n))
    nhid = draw(st.integers(*nh))
    case = {"type": t, "n": nv, "nh": nhid}
    if t == "density":
        naux = draw(st.integers(*na))
        if na[0] > 0 and na[1] > na[0] and draw(st.integers(0, 11)) == 0:
            naux = 0          # boundary of the documented range: no purification units at all (the mixed-state class then describes a pure state)
        case["na"] = naux
        case["am"] = draw(net_params(nv, nhid, naux, scales))
        # the phase network's auxiliary bias has no effect on rho (it cancels in Psi Psi^dagger and the library never reads it);
        # its documented value is 0, but a user / a loaded file may hold anything there: non-zero in 1 of 5 cases
        case["ph"] = draw(net_params(nv, nhid, naux, scales, zero_d=draw(st.integers(0, 4)) != 0))
        if any(x != 0 for x in case["ph"]["d"]):
            case["ph_aux_nonzero"] = True
    else:
        case["am"] = draw(net_params(nv, nhid, None, scales))
        if t == "complex":
            case["ph"] = draw(net_params(nv, nhid, None, scales))
    if unitaries and t != "positive" and draw(st.booleans()):
        case["unitaries"] = draw(user_unitaries())
    # lifecycle: 1 in 6 states is reinitialised right after construction (new parameter objects) before its parameters are set
    if draw(st.integers(0, 5)) == 0:
        case["reinit_first"] = True
    if unitaries and t != "positive":
        # the order in which the letters were put into the state's dictionary is immaterial: 0 = as create_dict returns it, 1 = reversed, 2 = rotated by one
        case["unitary_key_order"] = draw(st.sampled_from([0, 0, 1, 2]))
    return rescale_case(case, bound)


ANGLE = st.one_of(st.floats(min_value=-3.2, max_value=3.2, allow_nan=False, width=64), st.floats(min_value=-7.0, max_value=7.0, allow_nan=False, width=64),
                  st.sampled_from([0.0, 3.141592653589793, -3.141592653589793, 1.5707963267948966, 6.283185307179586]))


@st.composite
def user_unitaries(draw, keys=("H", "Q", "X", "Y")):
    """1-2 user-added single-qubit unitaries (4 angles each). 'Z' is never overridden: the library's
    fast paths define the reference basis by the letter Z."""
    ks = draw(st.lists(st.sampled_from(list(keys)), min_size=1, max_size=2, unique=True))
    return {k: [draw(ANGLE), draw(ANGLE), draw(ANGLE), draw(ANGLE)] for k in ks}


def basis_strings(n, alphabet="XYZ"):
    return ["".join(p) for p in itertools.product(alphabet, repeat=n)]


def basis_string(n, alphabet="XYZ"):
    return st.lists(st.sampled_from(list(alphabet)), min_size=n, max_size=n).map("".join)


def index_list(n, min_size=1, max_size=8):
    return st.lists(st.integers(0, 2 ** n - 1), min_size=min_size, max_size=max_size)


# ------------------------------------------------------------------ builders

def ref_nets(case):
    am = R.net_from_case(case["am"])
    ph = R.net_from_case(case["ph"]) if case.get("ph") else None
    return am, ph


def ref_unitary_dict(case):
    d = R.default_unitaries()
    for k, ang in (case.get("unitaries") or {}).items():
        d[k] = R.unitary_from_angles(*ang)
    return d


def lib_unitary_dict(case):
    from qucumber.utils import unitaries
    extra = {k: R.c_to_lib(R.unitary_from_angles(*ang)) for k, ang in (case.get("unitaries") or {}).items()}
    d = unitaries.create_dict(**extra)
    ko = case.get("unitary_key_order", 0)
    if ko:
        keys = list(d.keys())
        keys = keys[::-1] if ko == 1 else keys[1:] + keys[:1]
        d = {k: d[k] for k in keys}          # same letters, same matrices, another insertion order
    return d


def set_net(rbm, net):
    names = {"W": "weights_W" if "U" in net else "weights", "U": "weights_U", "b": "visible_bias",
             "c": "hidden_bias", "d": "aux_bias"}
    for k, v in net.items():
        p = getattr(rbm, names[k])
        p.data.copy_(torch.tensor(v, dtype=torch.double).reshape(p.shape))


def build_state(case):
    """Real library object with the case's parameters written through the public attribute names."""
    from qucumber.nn_states import ComplexWaveFunction, DensityMatrix, PositiveWaveFunction
    t, n, nh = case["type"], case["n"], case["nh"]
    if t == "positive":
        s = PositiveWaveFunction(n, nh, gpu=False)
    elif t == "complex":
        s = ComplexWaveFunction(n, nh, unitary_dict=lib_unitary_dict(case) if (case.get("unitaries") or case.get("unitary_key_order")) else None, gpu=False)
    else:
        s = DensityMatrix(n, nh, case["na"], unitary_dict=lib_unitary_dict(case) if (case.get("unitaries") or case.get("unitary_key_order")) else None, gpu=False)
    if case.get("reinit_first"):
        s.reinitialize_parameters()
    set_net(s.rbm_am, case["am"])
    if case.get("ph"):
        set_net(s.rbm_ph, case["ph"])
    return s


def mirrored(case):
    """the same case with every network parameter multiplied by -0.5 (another, equally admissible parameter set of the same shapes)"""
    def m(x):
        return [m(y) for y in x] if isinstance(x, list) else -0.5 * x
    out = dict(case, am={k: m(v) for k, v in case["am"].items()})
    if case.get("ph"):
        out["ph"] = {k: m(v) for k, v in case["ph"].items()}
    return out


@st.composite
def balanced_net(draw, n, nh, na=None):
    """amplitude-network parameters of a SLOWLY MIXING Gibbs kernel: ferromagnetic couplings of magnitude 2..4 with biases that balance them
    (two well separated modes), so that the law of a chain from a fixed start still moves after 16, 32, ... steps"""
    f = st.floats(2.0, 4.0, allow_nan=False, width=64)
    e = st.floats(-0.4, 0.4, allow_nan=False, width=64)
    W = [[draw(f) for _ in range(n)] for _ in range(nh)]
    net = {"W": W, "c": [-sum(r) / 2 + draw(e) for r in W]}
    col = [sum(W[j][i] for j in range(nh)) for i in range(n)]
    if na is not None:
        U = [[draw(f) for _ in range(n)] for _ in range(na)]
        net["U"] = U
        net["d"] = [-sum(r) / 2 + draw(e) for r in U]
        col = [col[i] + sum(U[j][i] for j in range(na)) for i in range(n)]
    net["b"] = [-col[i] / 2 + draw(e) for i in range(n)]
    return net


class _Boom(RuntimeError):
    """raised on purpose by a harness callback"""


def abort_a_fit(state, data, bases=None, hook="on_batch_end", touch_normalization=False, space=None, **fit_kw):
    """A training run that a USER callback aborts with an exception (hook in on_train_start / on_epoch_start / on_batch_end / on_epoch_end),
    caught here as a caller would.  Nothing a failed call leaves behind may affect later, correct use of the same objects."""
    from qucumber.callbacks import LambdaCallback

    def _raise():
        raise _Boom("user callback failed")
    boom = {"on_train_start": lambda s_: _raise(), "on_train_end": lambda s_: _raise(), "on_epoch_start": lambda s_, e_: _raise(),
            "on_epoch_end": lambda s_, e_: _raise(), "on_batch_start": lambda s_, e_, b_: _raise(), "on_batch_end": lambda s_, e_, b_: _raise()}[hook]
    cbs = []
    if touch_normalization:
        sp = space if space is not None else state.generate_hilbert_space()     # the caller's own space object, if given
        cbs.append(LambdaCallback(on_epoch_end=lambda s_, e_: s_.normalization(sp), on_batch_end=lambda s_, e_, b_: s_.normalization(sp)))
    cbs.append(LambdaCallback(**{hook: boom}))
    kw = dict(epochs=2, pos_batch_size=2, lr=0.01, k=1, callbacks=cbs)
    kw.update(fit_kw)
    if bases is not None:
        kw["input_bases"] = bases
    try:
        state.fit(data, **kw)
    except _Boom:
        pass
    state.stop_training = False


def busy_callback(rng=True, other=True, hooks=("on_batch_end", "on_epoch_end", "on_epoch_start", "on_batch_start", "on_train_start")):
    """Re-entrant use: a user callback that, from inside a running fit(), makes the public calls a monitoring script makes on the SAME state
    (normalisation, psi / rho, the three gradient functions, a save to memory, the NLL metric; with rng=True also sample() and observable
    statistics; with other=True also a one-epoch fit() of ANOTHER small state).  None of them changes the trained state's parameters, so
    whatever the enclosing fit() is documented to do must be unaffected."""
    import io
    import numpy as np
    from qucumber.callbacks import LambdaCallback
    from qucumber.nn_states import PositiveWaveFunction
    from qucumber.observables import SigmaZ
    from qucumber.utils import training_statistics as TS
    box = {"other": None, "calls": 0}

    def act(s_):
        box["calls"] += 1
        n_ = s_.num_visible
        sp_ = s_.generate_hilbert_space() if n_ <= 6 else None
        smp_ = torch.zeros(2, n_, dtype=torch.double)
        smp_[1, 0] = 1.0
        has_ph = len(s_.networks) > 1
        b_ = np.array([["Z"] * n_] * 2)
        which = box["calls"] % 4
        if sp_ is not None:
            s_.normalization(sp_)
            (s_.rho(sp_, sp_) if hasattr(s_, "rho") else s_.psi(sp_))
            if which == 0:
                s_.compute_exact_gradients(smp_.clone(), sp_, **({"bases_batch": b_} if has_ph else {}))
            if which == 1:
                TS.NLL(s_, smp_.clone(), sp_, **({"sample_bases": b_} if has_ph else {}))
        s_.gradient(smp_.clone(), **({"bases": b_} if has_ph else {}))
        if which == 2:
            s_.positive_phase_gradients(smp_.clone(), **({"bases_batch": b_} if has_ph else {}))
            s_.save(io.BytesIO())
        if rng:
            s_.sample(2, num_samples=3)
            if which == 3:
                SigmaZ().statistics(s_, num_samples=4, num_chains=2, burn_in=1, steps=1)
        if other and which == 1:
            if box["other"] is None:
                box["other"] = PositiveWaveFunction(2, 2, gpu=False)
            box["other"].fit(torch.tensor([[0.0, 1.0], [1.0, 1.0]], dtype=torch.double), epochs=1, pos_batch_size=2, lr=0.01)

    table = {"on_train_start": lambda s_: act(s_), "on_epoch_start": lambda s_, e_: act(s_), "on_epoch_end": lambda s_, e_: act(s_),
             "on_batch_start": lambda s_, e_, b_: act(s_), "on_batch_end": lambda s_, e_, b_: act(s_)}
    return LambdaCallback(**{h: table[h] for h in hooks})


def reinit_and_set(state, case):
    """lifecycle step used by histories: reinitialise (the networks get NEW parameter objects), then write the case's parameters again"""
    state.reinitialize_parameters()
    set_net(state.rbm_am, case["am"])
    if case.get("ph"):
        set_net(state.rbm_ph, case["ph"])


def net_of(rbm):
    """Read a library network back into the reference container (float64 clones)."""
    if hasattr(rbm, "weights_U"):
        return {"W": rbm.weights_W.data.clone().double(), "U": rbm.weights_U.data.clone().double(),
                "b": rbm.visible_bias.data.clone().double(), "c": rbm.hidden_bias.data.clone().double(),
                "d": rbm.aux_bias.data.clone().double()}
    return {"W": rbm.weights.data.clone().double(), "b": rbm.visible_bias.data.clone().double(),
            "c": rbm.hidden_bias.data.clone().double()}


PARAM_ORDER_BINARY = ["W", "b", "c"]          # order of nn.Module.parameters() for BinaryRBM
PARAM_ORDER_PURIF = ["W", "U", "b", "c", "d"]  # ... for PurificationRBM


def flat_in_param_order(rbm, named):
    """Flatten a dict {W,b,c[,U,d]} of tensors in the order of rbm.parameters() (by *identity* of the
    parameter objects, so a change of registration order in the library is followed, and a mismatch between
    the library's gradient layout and that order is visible)."""
    names = {"weights": "W", "weights_W": "W", "weights_U": "U", "visible_bias": "b", "hidden_bias": "c",
             "aux_bias": "d"}
    out = []
    for pname, _ in rbm.named_parameters():
        out.append(named[names[pname]].reshape(-1))
    return torch.cat(out)


def all_biases_nonzero(case):
    for key in ("am", "ph"):
        net = case.get(key)
        if not net:
            continue
        for k in ("b", "c", "d"):
            if k in net and not (key == "ph" and k == "d"):   # the phase aux bias is irrelevant by design
                if not any(abs(x) > 0 for x in net[k]):
                    return False
    return True


def max_abs_param(case):
    m = 0.0
    for key in ("am", "ph"):
        net = case.get(key)
        if net:
            for v in net.values():
                a = np.abs(np.asarray(v, dtype=float))
                if a.size:
                    m = max(m, float(a.max()))
    return m


def max_preactivation(case):
    """largest |c_j + W_j.v| / |d_k + U_k.v| over all visible states and both networks (bounded by |bias| + sum of |weights| of the row).
    torch's softplus is exact to rounding below its threshold 20; above it the library's documented arithmetic deviates by e^-20 per unit,
    in energies AND (through the auxiliary-unit terms of mixed states) in gradients."""
    worst = 0.0
    for net in ("am", "ph"):
        d = case.get(net)
        if not d:
            continue
        for wkey, bkey in (("W", "c"), ("U", "d")):
            if wkey in d:
                for row, bias in zip(d[wkey], d[bkey]):
                    worst = max(worst, abs(float(bias)) + sum(abs(float(x)) for x in row))
    return worst


def min_aux_factor(case):
    """smallest |1 + exp(z_k)| / (1 + exp(Re z_k)) over all pairs v != v' and auxiliary units k of a mixed state, with
    z_k = d_k + U_am,k.(v+v')/2 + i U_ph,k.(v-v')/2: the factor of rho(v, v') contributed by auxiliary unit k.  Where it is small, rho(v, v')
    nearly vanishes by cancellation and the library's log-representation of rho loses that many digits (cf. finding F1)."""
    import cmath
    import math
    if case.get("type") != "density":
        return 1.0
    am, ph, n = case["am"], case["ph"], case["n"]
    vs = list(itertools.product([0.0, 1.0], repeat=n))
    worst = 1.0
    for k in range(len(am["d"])):
        ua, up, d = am["U"][k], ph["U"][k], am["d"][k]
        for v in vs:
            for vp in vs:
                if v == vp:
                    continue
                re_ = d + 0.5 * sum(u * (a + b) for u, a, b in zip(ua, v, vp))
                im_ = 0.5 * sum(u * (a - b) for u, a, b in zip(up, v, vp))
                if re_ > 700:
                    continue
                worst = min(worst, abs(1.0 + cmath.exp(complex(re_, im_))) / (1.0 + math.exp(re_)))
    return worst


def arch_label(case):
    lab = [f"type={case['type']}", f"n={case['n']}"]
    if case["nh"] != case["n"]:
        lab.append("nh!=nv")
    if case.get("na") == 0:
        lab.append("na=0(no purification units)")
    if case.get("na") is not None and case["na"] != case["n"]:
        lab.append("na!=nv")
    if case.get("rescaled"):
        lab.append("rescaled")
    if case.get("unitaries"):
        lab.append("user_unitaries")
    if case.get("unitary_key_order"):
        lab.append("unitary_dict_key_order!=default")
    if case.get("reinit_first"):
        lab.append("reinitialised_before_parameters_set")
    if case.get("large"):
        lab.append("large(beyond-box)")
    if case.get("ph_aux_nonzero"):
        lab.append("phase_aux_bias!=0")
    if case.get("polarised"):
        lab.append("polarised(|b|>=12)")
    return lab


def divergence_guard():
    """(callback, flag): stops a fit() whose parameters became non-finite.  Zero-probability training rows make the
    NLL gradient infinite (1/p); what the library does after that is outside every property, so such runs are excluded
    and counted instead of being judged."""
    from qucumber.callbacks import LambdaCallback
    flag = [False]

    def on_be(s, e, b):
        if not all(bool(torch.isfinite(p).all()) for net in s.networks for p in getattr(s, net).parameters()):
            flag[0] = True
            s.stop_training = True
    return LambdaCallback(on_batch_end=on_be), flag
