"""C10 - Fidelity, KL divergence and NLL report the quantities they are named for."""
import math
import numpy as np
import torch
from hypothesis import strategies as st

from vf import gen, refmodel as R
from vf.common import Sub, require
from vf.props.c03 import born_rows

PROPERTY = "C10"
RULE = ("Generated: three state types, n 1..3 (thorough ..4), parameters with scales <= 2 (all biases drawn); targets: arbitrary "
        "normalised complex vectors / density matrices A A^dagger / tr of drawn rank (non-real); bases in {None, drawn list of "
        "strings over XYZ, dict of targets pre-rotated per basis} (positive states: None only); NLL datasets with per-row bases and "
        "outcomes drawn from the reference Born distribution; a drawn global phase. Oracle: fidelity = |<t|psi>|^2 / Uhlmann "
        "fidelity via eigh of the reference state, in [0,1], 1 against the model's own state, phase-invariant; KL = mean over bases "
        "of sum q log(q/p) of reference Born distributions (dense U), >= 0, 0 against own state in every basis, dict form == "
        "rotate-once form; NLL = -mean log Born probability in each row's own basis; every path returns a plain float. "
        "Non-trivial = non-real target and (complex/density) a basis containing Y, (density) target rank > 1.")
RULE_EXT = ('Extended as built: deprecated aliases, repeatability and target-unchanged checks, sparse targets with exact zeros (TINY=1e-15 convention), bases given as ndarray, datasets of up to 700 rows, polarised states, an in-place parameter history A -> B -> A, ignored extra keyword arguments. Rounds 5-6: user-added / overridden unitaries (letters used in bases); conditioning-based exclusion of rotated probabilities that are tiny through cancellation (error bound on KL > 1e-10, counted); the dict of per-basis targets passed by the caller is unchanged and a second call gives the same value.')
RULE_EXT += " Round 10 (after an exception / long time axis): after an aborted fit() (normalisation evaluated in its callbacks on the caller's space object): metrics evaluated, parameters changed, fidelity with the own state = 1 and NLL of basis state 0 = -log of its own probability; 36 parameter states on one object."
RULE_EXT += ' Re-entrant use: fidelity with the own state and NLL of basis state 0 asked for from inside the callbacks of a running fit.'
RULE = RULE + " " + RULE_EXT
ASSUMPTIONS = ["rotated Born probabilities that are tiny because their terms cancel (|sum|/sum|terms| small) are ill-conditioned in any float64 implementation: cases where the resulting error bound on KL exceeds 1e-10 (or a sampled row has |sum|/sum|terms| < 1e-6) are excluded and counted; KL against the model's own state is 0 to within 2e-8 (softplus threshold e^-20 per hidden unit)",
               "cases where a reference Born probability that is paired with positive target mass is < 1e-15 are excluded and counted "
               "(torch's probs_to_logits clamps probabilities at machine epsilon)",
               "tolerance 1e-8*(1+|value|) for KL/NLL and pure fidelity, 1e-6 for mixed fidelity (square roots of small eigenvalues)"]


@st.composite
def cases(draw, tier):
    t = draw(st.sampled_from(gen.TYPES))
    nmax = 3 if tier == "quick" else (3 if t == "density" else 4)
    if draw(st.integers(0, 5)) == 0:
        sc = draw(gen.state_case(types=[t], n=(1, nmax), nh=(1, 3), na=(1, 3), scales=[0.5, 2.0, 8.0, 30.0], bound=34.0))     # strongly polarised states: Born probabilities down to ~1e-15
        if draw(st.booleans()):
            # one visible bias of magnitude 28-33: some Born probability lands between 1e-15 and 1e-12 without any cancellation (well conditioned)
            j_ = draw(st.integers(0, sc["n"] - 1))
            sc["am"]["b"][j_] = draw(st.sampled_from([-1.0, 1.0])) * draw(st.floats(28.0, 33.0, allow_nan=False, width=64))
            sc["polarised"] = True
    else:
        sc = draw(gen.state_case(types=[t], n=(1, nmax), nh=(1, 3), na=(1, 3), scales=[0.05, 0.5, 0.5, 2.0], bound=30.0, unitaries=True))     # user-added / overridden unitaries in half of the complex/mixed cases
    alt = draw(gen.state_case(types=[t], n=(sc["n"], sc["n"]), nh=(sc["nh"], sc["nh"]), na=(sc.get("na", 1), sc.get("na", 1)), scales=[0.5, 2.0], bound=30.0))
    n = sc["n"]
    D = 2 ** n
    alpha = "XYZ" + "".join(sorted(k for k in (sc.get("unitaries") or {}) if k not in "XYZ"))
    fl = st.floats(-1, 1, allow_nan=False, width=64)
    c = {"state": sc, "phi": draw(st.floats(-3.2, 3.2, allow_nan=False, width=64)), "alt": {"am": alt["am"], "ph": alt.get("ph")}}
    if t == "density":
        r = draw(st.integers(1, D))
        c["A"] = {"re": draw(st.lists(fl, min_size=D * r, max_size=D * r)), "im": draw(st.lists(fl, min_size=D * r, max_size=D * r)), "r": r}
    else:
        c["t"] = {"re": draw(st.lists(fl, min_size=D, max_size=D)), "im": draw(st.lists(fl, min_size=D, max_size=D))}
        if draw(st.integers(0, 3)) == 0:
            # sparse targets (basis states, GHZ-like): exact zeros in the target distribution
            keep = draw(st.lists(st.integers(0, D - 1), min_size=1, max_size=2, unique=True))
            c["t"] = {"re": [c["t"]["re"][i] if i in keep else 0.0 for i in range(D)], "im": [c["t"]["im"][i] if i in keep else 0.0 for i in range(D)]}
            c["sparse"] = True
    if t == "positive":
        c["bases"] = None
    else:
        bl = draw(st.one_of(st.none(), st.lists(gen.basis_string(n, alpha), min_size=1, max_size=4, unique=True), st.lists(gen.basis_string(n, alpha), min_size=2, max_size=5)))     # the last form may list a basis twice (it then counts twice in the mean)
        if bl is not None and draw(st.booleans()) and "Z" * n not in bl:
            bl.insert(draw(st.integers(0, len(bl))), "Z" * n)      # the reference basis is what every real bases list contains
        c["bases"] = bl
    if t == "density" and draw(st.integers(0, 4)) == 0:
        c["sparse_dm"] = draw(st.integers(0, D - 1)) + D
    c["dict_form"] = draw(st.booleans())
    if sc.get("unitaries") and draw(st.booleans()):
        c["unitaries_load"] = {k: [draw(gen.ANGLE) for _ in range(4)] for k in sc["unitaries"]}
    c["space_default"] = draw(st.booleans())
    c["aborted_first"] = draw(st.integers(0, 2)) == 0
    c["many_states"] = draw(st.integers(0, 7)) == 0
    c["inside_fit"] = draw(st.integers(0, 2)) == 0
    N = draw(st.integers(1, 6)) if draw(st.integers(0, 19)) else draw(st.integers(257, 700))     # occasionally a large data set
    U01 = st.floats(0, 1, exclude_max=True, allow_nan=False, width=64)
    if N <= 6:
        c["rows"] = [{"basis": ("Z" * n if t == "positive" or draw(st.integers(0, 2)) == 0 else draw(gen.basis_string(n, alpha))), "u": draw(U01)} for _ in range(N)]
    else:
        bpool = ["Z" * n] + ([draw(gen.basis_string(n, alpha)) for _ in range(2)] if t != "positive" else [])
        us = draw(st.lists(U01, min_size=N, max_size=N))
        c["rows"] = [{"basis": bpool[(i * 7) % len(bpool)], "u": us[i]} for i in range(N)]
    c["nll_with_bases"] = t != "positive" and draw(st.integers(0, 3)) > 0
    if not c["nll_with_bases"]:
        for r_ in c["rows"]:
            r_["basis"] = "Z" * n
    return c


def is_plain_float(x):
    return isinstance(x, float) and not isinstance(x, torch.Tensor)


def kl_ref(q, p):
    m = q > 0
    return float((q[m] * (torch.log(q[m]) - torch.log(p[m]))).sum())


def check(c):
    from qucumber.utils import training_statistics as TS
    sc = c["state"]
    t, n = sc["type"], sc["n"]
    D = 2 ** n
    state = gen.build_state(sc)
    am, ph = gen.ref_nets(sc)
    V = R.bits(n)
    ud = gen.ref_unitary_dict(sc)
    space = None if c["space_default"] else state.generate_hilbert_space()
    excluded = 0
    dens = t == "density"
    if dens:
        rho = R.rho_ref(am, ph, V)
        rho = rho / rho.diagonal().real.sum()
        A = (torch.tensor(c["A"]["re"], dtype=R.F64) + 1j * torch.tensor(c["A"]["im"], dtype=R.F64)).reshape(D, c["A"]["r"])
        A = A + 1e-3 * torch.eye(D, c["A"]["r"], dtype=R.C128)
        if c.get("sparse_dm"):
            A = torch.zeros(D, 1, dtype=R.C128)
            A[c["sparse_dm"] % D, 0] = 1.0          # a computational-basis projector: zero diagonal entries
        tau = A @ A.conj().t()
        tau = tau / tau.diagonal().real.sum()
        own = rho
        born = lambda M, b: (R.kron_U(ud, b) @ M @ R.kron_U(ud, b).conj().t()).diagonal().real.clamp(min=0)
        target, model = tau, rho
        nonreal = bool((tau.imag.abs() > 1e-9).any())
    else:
        psi = R.psi_ref(am, ph, V)
        psi = psi / torch.sqrt((psi.abs() ** 2).sum())
        tv = torch.tensor(c["t"]["re"], dtype=R.F64) + 1j * torch.tensor(c["t"]["im"], dtype=R.F64)
        if float(tv.abs().max()) < 1e-6:
            tv = tv.clone()
            tv[0] = 1.0
        tv = tv / torch.sqrt((tv.abs() ** 2).sum())
        own = psi
        born = lambda v, b: (R.kron_U(ud, b) @ v).abs() ** 2
        target, model = tv, psi
        nonreal = bool((tv.imag.abs() > 1e-9).any())
    def inv_cond(M, b):
        """|sum of terms| / sum |terms| of every rotated Born probability: a probability that is tiny because its terms cancel carries the
        rounding of the terms (relative error eps / inv_cond) in ANY float64 implementation; a tiny probability without cancellation does not"""
        U = R.kron_U(ud, b)
        if dens:
            mag = (U.abs() @ M.abs() @ U.abs().t()).diagonal().real
        else:
            mag = (U.abs() @ M.abs()) ** 2
        return born(M, b) / (mag + 1e-300)
    lib_t = R.c_to_lib(target)
    lib_own = R.c_to_lib(own)
    keep_t, keep_own = lib_t.clone(), lib_own.clone()

    # ---------------- fidelity
    def fid_ref(a, b):
        if not dens:
            return float((a.conj() @ b).abs() ** 2)
        w, v = torch.linalg.eigh(b)
        s = v @ torch.diag(torch.sqrt(w.clamp(min=0)).to(R.C128)) @ v.conj().t()
        ev = torch.linalg.eigvalsh(s @ a @ s)
        return float(torch.sqrt(ev.clamp(min=0)).sum() ** 2)
    ftol = 1e-6 if dens else 1e-8
    f = TS.fidelity(state, lib_t, space)
    require(is_plain_float(f), "fidelity:type", f"fidelity returned {type(f).__name__}, not a plain real number")
    fr = fid_ref(target, model)
    require(abs(f - fr) <= ftol, "fidelity:value", f"fidelity {f} != {'Uhlmann fidelity' if dens else 'squared overlap'} {fr} of the normalised states")
    require(-1e-9 <= f <= 1 + ftol, "fidelity:range", f"fidelity {f} outside [0,1]")
    import warnings
    alias = "target_rho" if dens else "target_psi"
    with warnings.catch_warnings(record=True) as wrec:
        warnings.simplefilter("always")
        f_alias = TS.fidelity(state, space=space, **{alias: lib_t})
    require(is_plain_float(f_alias) and abs(f_alias - f) <= 1e-12, "fidelity:deprecated-alias", f"fidelity({alias}=...) = {f_alias} differs from fidelity(target=...) = {f}")
    require(len(wrec) >= 1, "fidelity:deprecated-alias-silent", f"the deprecated argument {alias} must still work and warn")
    try:
        TS.fidelity(state, lib_t, space, **{alias: lib_t})
        both_ok = True
    except TypeError:
        both_ok = False
    require(not both_ok, "fidelity:alias-and-name-accepted", "passing both the deprecated alias and the new name must be refused (TypeError)")
    f_kw = TS.fidelity(state, lib_t, space, bases=["Z" * n], extra_argument=3)      # documented: extra keyword arguments are ignored
    require(is_plain_float(f_kw) and abs(f_kw - f) <= 1e-12, "fidelity:extra-kwargs", "fidelity changed when ignored keyword arguments were passed")
    f_own = TS.fidelity(state, lib_own, space)
    require(is_plain_float(f_own) and abs(f_own - 1) <= ftol, "fidelity:own-state", f"fidelity against the model's own normalised state is {f_own}, not 1")
    if not dens:
        ph_t = target * np.exp(1j * c["phi"])
        f2 = TS.fidelity(state, R.c_to_lib(ph_t), space)
        require(abs(f2 - f) <= 1e-9, "fidelity:global-phase", f"fidelity changed from {f} to {f2} under a global phase of the target")

    # ---------------- KL
    bases = c["bases"]
    blist = bases if bases is not None else ["Z" * n]
    qs = [born(target, b) for b in blist]
    ps = [born(model, b) for b in blist]
    TINY = 1e-15      # torch's probs_to_logits clamps at double eps (2.2e-16): only probabilities below ~1e-15 are outside the comparable regime
    risky = any(bool(((p < TINY) & (q > 0)).any()) for p, q in zip(ps, qs))
    # ill-conditioned rotated probabilities that carry target mass: bound on the rounding error any implementation makes in sum q log(q/p)
    kl_err_bound = max(float((q / q.sum() * 4e-16 / inv_cond(model, b).clamp(min=1e-300))[q > 0].sum()) for q, b in zip(qs, blist))
    if kl_err_bound > 1e-10:
        risky = True
    if risky:
        excluded += 1
    else:
        want = sum(kl_ref(q / q.sum(), p / p.sum()) for q, p in zip(qs, ps)) / len(blist)
        kl_want = want
        if bases is not None and c["dict_form"]:
            rot = (lambda M, b: R.kron_U(ud, b) @ M @ R.kron_U(ud, b).conj().t()) if dens else (lambda v, b: R.kron_U(ud, b) @ v)
            tdict = {b: R.c_to_lib(rot(target, b)) for b in bases}
            keep_tdict = {b: v.clone() for b, v in tdict.items()}
            use_keys = bool(len(bases) % 2)         # bases=None: the dictionary's own keys (each basis once) are averaged over
            bl_dict = None if use_keys else list(reversed(bases))
            ukeys = list(tdict.keys())
            want_d = want if not use_keys else sum(kl_ref(born(target, b) / born(target, b).sum(), born(model, b) / born(model, b).sum()) for b in ukeys) / len(ukeys)
            kl = TS.KL(state, tdict, space, bases=bl_dict)
            require(list(tdict.keys()) == list(keep_tdict.keys()) and all(torch.equal(tdict[b], keep_tdict[b]) for b in tdict), "target-mutated:dict",
                    "KL modified the caller's dictionary of per-basis targets")
            kl_rep = TS.KL(state, tdict, space, bases=bl_dict)
            require(abs(kl_rep - kl) <= 1e-12 * (1 + abs(kl)), "KL:not-repeatable:dict", f"KL with the same per-basis targets changed from {kl} to {kl_rep} on a second call")
            kl_once = TS.KL(state, lib_t, space, bases=bases if not use_keys else ukeys)
            require(is_plain_float(kl_once) and abs(kl - kl_once) <= 1e-8 * (1 + abs(want_d)), "KL:dict-vs-rotate-once",
                    f"KL with per-basis pre-rotated targets ({kl}) differs from KL with one target to be rotated over the same bases ({kl_once})")
            require(abs(kl - want_d) <= 1e-8 * (1 + abs(want_d)), "KL:value:dict", f"KL with per-basis targets = {kl}, but the mean divergence over {'the dictionary keys' if use_keys else 'the listed bases'} is {want_d}")
            want_cmp = want_d
        else:
            kl = TS.KL(state, lib_t, space, bases=(np.array(bases) if (bases is not None and c.get("space_default")) else bases))   # list or the documented numpy array
            want_cmp = want
        require(is_plain_float(kl), "KL:type", f"KL returned {type(kl).__name__}, not a plain real number")
        require(abs(kl - want_cmp) <= 1e-8 * (1 + abs(want_cmp)), "KL:value" + (":bases=None" if bases is None else ""),
                f"KL = {kl} but the mean Kullback-Leibler divergence of the Born distributions over bases {blist} is {want_cmp}")
        require(kl >= -2e-8, "KL:negative", f"KL divergence {kl} is negative")
    if not any(bool((p < TINY).any()) for p in ps):
        kl_own = TS.KL(state, lib_own, space, bases=bases)
        require(is_plain_float(kl_own) and abs(kl_own) <= 2e-8, "KL:own-state" + (":bases=None" if bases is None else ""),
                f"KL against the model's own state is {kl_own}, not 0 (bases {bases})")

    # the same target tensors are used for every call above (as a training script does): they must not have been altered, and
    # asking again must give the same answer
    require(torch.equal(lib_t, keep_t) and torch.equal(lib_own, keep_own), "target-mutated", "a metric modified the caller's target tensor (later evaluations with the same target are then wrong)")
    f_again = TS.fidelity(state, lib_t, space)
    require(abs(f_again - f) <= 1e-12, "fidelity:not-repeatable", f"fidelity of the same state and target changed from {f} to {f_again} on a second call")
    if not risky:
        kl_again = TS.KL(state, lib_t, space, bases=bases)
        require(is_plain_float(kl_again) and (abs(kl_again - kl_want) <= 1e-8 * (1 + abs(kl_want))), "KL:not-repeatable", f"KL changed to {kl_again} on a later call (expected {kl_want})")

    # the caller re-uses the SAME target tensor object for another target (fills it in place) and asks again: the answers must be those
    # of the new contents; then the first contents are put back
    if not risky:
        t2 = (own + 0.5 * target) if not dens else (0.5 * own + 0.5 * target)
        t2 = t2 / (torch.sqrt((t2.abs() ** 2).sum()) if not dens else t2.diagonal().real.sum())
        q2 = [born(t2, b) for b in blist]
        bound2 = max(float((q / q.sum() * 4e-16 / inv_cond(model, b).clamp(min=1e-300))[q > 0].sum()) for q, b in zip(q2, blist))
        if not any(bool(((p < TINY) & (q > 0)).any()) for p, q in zip(ps, q2)) and bound2 <= 1e-10:
            want2 = sum(kl_ref(q / q.sum(), p / p.sum()) for q, p in zip(q2, ps)) / len(blist)
            lib_t.copy_(R.c_to_lib(t2))
            kl2 = TS.KL(state, lib_t, space, bases=bases)
            f2_ = TS.fidelity(state, lib_t, space)
            lib_t.copy_(keep_t)
            require(abs(kl2 - want2) <= 1e-8 * (1 + abs(want2)), "KL:target-refilled-in-place", f"after the caller filled the same target tensor with another state KL = {kl2}, expected {want2} (first target: {kl_want})")
            require(abs(f2_ - fid_ref(t2, own)) <= (1e-6 if dens else 1e-8), "fidelity:target-refilled-in-place", f"after the caller filled the same target tensor with another state fidelity = {f2_}, expected {fid_ref(t2, own)}")
            kl3 = TS.KL(state, lib_t, space, bases=bases)
            require(abs(kl3 - kl_want) <= 1e-8 * (1 + abs(kl_want)), "KL:target-restored", f"with the first target contents restored KL = {kl3}, expected {kl_want}")

    # ---------------- NLL
    rows = born_rows({"state": sc, "rows": c["rows"]})
    N = len(rows)
    samples = R.rows_from_indices([k for _, k in rows], n)
    want = 0.0
    ok = True
    for b, k in rows:
        pb = born(model, b)
        pb = pb / pb.sum()
        if float(pb[k]) < TINY or float(inv_cond(model, b)[k]) < 1e-6:      # below eps, or tiny through cancellation (ill-conditioned): excluded and counted
            ok = False
        want -= float(torch.log(pb[k])) / N
    if ok:
        if c["nll_with_bases"]:
            sb = np.array([list(b) for b, _ in rows]).reshape(N, n)
            nll = TS.NLL(state, samples.clone(), space, sample_bases=sb)
        else:
            nll = TS.NLL(state, samples.clone(), space)
        require(is_plain_float(nll), "NLL:type" + (":sample_bases" if c["nll_with_bases"] else ""), f"NLL returned {type(nll).__name__}, not a plain real number")
        require(abs(nll - want) <= 1e-8 * (1 + abs(want)), "NLL:value", f"NLL = {nll} but minus the mean log Born probability of the samples in their own bases is {want}")
    else:
        excluded += 1
    # history on the same model object: parameters B written in place, metrics evaluated, parameters A restored, metrics evaluated again
    if c.get("alt"):
        def own_now():
            sp2_ = state.generate_hilbert_space()
            if dens:
                o_ = R.lib_to_c(state.rho(sp2_, sp2_)); return o_ / o_.diagonal().real.sum()
            o_ = R.lib_to_c(state.psi(sp2_)); return o_ / torch.sqrt((o_.abs() ** 2).sum())

        def own_metrics(what, bucket):
            """fidelity against the model's own current state is 1 and NLL of basis state 0 is minus the log of its own current probability"""
            o_ = own_now()
            f_ = TS.fidelity(state, R.c_to_lib(o_), space)
            require(abs(f_ - 1) <= ftol, bucket + ":fidelity-own-state", f"{what}: fidelity against the model's own current state is {f_}, not 1")
            p0_ = float(o_[0, 0].real) if dens else float(o_[0].abs() ** 2)
            if p0_ > 1e-12:
                nl_ = TS.NLL(state, R.rows_from_indices([0], n), space)
                require(abs(nl_ + math.log(p0_)) <= 1e-7 * (1 + abs(math.log(p0_))), bucket + ":NLL", f"{what}: NLL of basis state 0 is {nl_}, minus the log of its current probability is {-math.log(p0_)}")

        if c.get("inside_fit") and n <= 3:
            # re-entrant use: the metrics asked for from INSIDE the callbacks of a running fit (as MetricEvaluator does), at every epoch end and
            # every batch end: each answer must be that of the parameters the model has at that moment
            from qucumber.callbacks import LambdaCallback
            dat_ = state.generate_hilbert_space()[: min(4, D)].clone()
            guard_, div_ = gen.divergence_guard()
            looks_ = [0]

            def look_(s_):
                if all(bool(torch.isfinite(p_).all()) for net_ in s_.networks for p_ in getattr(s_, net_).parameters()):
                    looks_[0] += 1
                    own_metrics(f"look #{looks_[0]} from inside a callback of a running fit", "inside-fit-callback")
            # ... and the library's own evaluator with metrics of TWO states of the same size (the trained one and another one with other
            # parameters) evaluated at the same epoch ends: each metric reports the quantity of the state it was asked about
            from qucumber.callbacks import MetricEvaluator
            other_ = gen.build_state(dict(sc, am=c["alt"]["am"], ph=c["alt"].get("ph")))
            sp_o = other_.generate_hilbert_space()
            if dens:
                oo_ = R.lib_to_c(other_.rho(sp_o, sp_o)); oo_ = oo_ / oo_.diagonal().real.sum(); p0_other = float(oo_[0, 0].real)
            else:
                oo_ = R.lib_to_c(other_.psi(sp_o)); p0_other = float((oo_[0].abs() ** 2) / (oo_.abs() ** 2).sum())
            row0_ = R.rows_from_indices([0], n)
            expect_self = []

            def note_(s_):
                o_ = own_now()
                expect_self.append(float(o_[0, 0].real) if dens else float(o_[0].abs() ** 2))
            sp_self, sp_oth = (None, None) if len(c["rows"]) % 2 else (space, sp_o)       # the spaces left to their defaults in half of the cases
            two_ = MetricEvaluator(1, {"self_nll": lambda s_, **kw_: TS.NLL(s_, row0_.clone(), sp_self), "other_nll": lambda s_, **kw_: TS.NLL(other_, row0_.clone(), sp_oth),
                                       "self_nll_again": lambda s_, **kw_: TS.NLL(s_, row0_.clone(), sp_self)})
            state.fit(dat_, epochs=2, pos_batch_size=2, lr=0.05, callbacks=[guard_, LambdaCallback(on_batch_end=lambda s_, e_, b_: look_(s_), on_epoch_end=lambda s_, e_: (look_(s_), note_(s_))[0]), two_],
                      **({} if t == "positive" else {"input_bases": np.array([["Z"] * n] * dat_.shape[0])}))
            if not div_[0] and len(two_) == len(expect_self):
                for i_, p_ in enumerate(expect_self):
                    if p_ > 1e-12 and p0_other > 1e-12:
                        got_ = (two_.get_value("self_nll", i_), two_.get_value("other_nll", i_), two_.get_value("self_nll_again", i_))
                        want_ = (-math.log(p_), -math.log(p0_other), -math.log(p_))
                        require(all(abs(g_ - w_) <= 1e-7 * (1 + abs(w_)) for g_, w_ in zip(got_, want_)), "inside-fit-callback:two-states-one-evaluator",
                                f"a MetricEvaluator whose metrics ask about two states of the same size (the trained one, another one, the trained one again) recorded {got_} at its evaluation #{i_}, expected {want_}")
            state.stop_training = False
            gen.set_net(state.rbm_am, sc["am"])
            if sc.get("ph"):
                gen.set_net(state.rbm_ph, sc["ph"])
        if c.get("aborted_first"):
            # after an exception: a fit() whose callbacks evaluate the normalisation is aborted by a user callback (caught); metrics are
            # evaluated once, the parameters change without a completed fit (below), and the metrics must follow
            dat_ = state.generate_hilbert_space()[: min(3, D)].clone()
            gen.abort_a_fit(state, dat_, None if t == "positive" else np.array([["Z"] * n] * dat_.shape[0]), hook="on_epoch_end" if len(c["rows"]) % 2 else "on_batch_end",
                            touch_normalization=True, space=space)
            gen.set_net(state.rbm_am, sc["am"])
            if sc.get("ph"):
                gen.set_net(state.rbm_ph, sc["ph"])
            f0_ = TS.fidelity(state, lib_t, space)
            require(abs(f0_ - f) <= 1e-12, "after-aborted-fit:fidelity", f"after a fit() aborted by an exception (caught) and the parameters written back, fidelity is {f0_}, it was {f}")
        if c.get("many_states") and n <= 3:
            # long time axis: 36 parameter states evaluated on this one object, two normalisation-dependent metrics at each
            for i_ in range(36):
                f_ = 1.0 - 0.02 * (i_ + 1)
                gen.set_net(state.rbm_am, {k_: (torch.tensor(v_, dtype=torch.double) * f_).tolist() for k_, v_ in sc["am"].items()})
                own_metrics(f"parameter state {i_ + 1} of 36 evaluated on one object", "long-history")
        gen.set_net(state.rbm_am, c["alt"]["am"])
        if c["alt"].get("ph"):
            gen.set_net(state.rbm_ph, c["alt"]["ph"])
        sp2 = state.generate_hilbert_space()
        if dens:
            ownB = R.lib_to_c(state.rho(sp2, sp2)); ownB = ownB / ownB.diagonal().real.sum()
        else:
            ownB = R.lib_to_c(state.psi(sp2)); ownB = ownB / torch.sqrt((ownB.abs() ** 2).sum())
        fB = TS.fidelity(state, R.c_to_lib(ownB), space)
        require(abs(fB - 1) <= ftol, "history:fidelity-own-state-after-update", f"after an in-place parameter update, fidelity against the model's own (new) state is {fB}, not 1")
        own_metrics("after an in-place parameter update" + (" that followed an aborted fit" if c.get("aborted_first") else ""), "history")
        TS.NLL(state, R.rows_from_indices([0], n), space)
        gen.set_net(state.rbm_am, sc["am"])
        if sc.get("ph"):
            gen.set_net(state.rbm_ph, sc["ph"])
        fA = TS.fidelity(state, lib_t, space)
        require(abs(fA - f) <= 1e-12, "history:fidelity-after-restoring-parameters", f"after restoring the original parameters fidelity is {fA}, it was {f}")
        if not risky:
            klA = TS.KL(state, lib_t, space, bases=bases)
            require(abs(klA - kl_want) <= 1e-8 * (1 + abs(kl_want)), "history:KL-after-restoring-parameters", f"after restoring the original parameters KL is {klA}, expected {kl_want}")
    if sc.get("unitaries") and c.get("unitaries_load") and t != "positive":
        # lifecycle: the state (already evaluated in rotated bases above) loads a file written by a twin with the same parameters but other
        # matrices under the same letters; NLL (and KL) afterwards must use the loaded dictionary
        import io
        sc2 = dict(sc, unitaries=c["unitaries_load"])
        twin = gen.build_state(sc2)
        buf = io.BytesIO()
        twin.save(buf)
        buf.seek(0)
        # shared object: two further states are built from ONE dictionary object; one of them loads the twin's file - the other one's metrics
        # (and the caller's dictionary) must not move
        from qucumber.nn_states import ComplexWaveFunction, DensityMatrix
        shared_d = gen.lib_unitary_dict(sc)
        keep_d = {k_: v_.clone() for k_, v_ in shared_d.items()}
        mk_ = (lambda: ComplexWaveFunction(n, sc["nh"], unitary_dict=shared_d, gpu=False)) if t == "complex" else (lambda: DensityMatrix(n, sc["nh"], sc["na"], unitary_dict=shared_d, gpu=False))
        s1, s2 = mk_(), mk_()
        for s_ in (s1, s2):
            gen.set_net(s_.rbm_am, sc["am"]); gen.set_net(s_.rbm_ph, sc["ph"])
        rows0 = born_rows({"state": sc, "rows": c["rows"]})
        smp0 = R.rows_from_indices([k for _, k in rows0], n)
        sb0 = np.array([list(b) for b, _ in rows0]).reshape(len(rows0), n)
        before_ = TS.NLL(s2, smp0.clone(), space, sample_bases=sb0)
        buf.seek(0)
        s1.load(buf)
        after_ = TS.NLL(s2, smp0.clone(), space, sample_bases=sb0)
        require((before_ == after_ or (before_ != before_ and after_ != after_)) and all(torch.equal(shared_d[k_], keep_d[k_]) for k_ in keep_d) and list(shared_d.keys()) == list(keep_d.keys()),
                "shared-dictionary:sibling-metrics-moved", f"after a sibling state built from the same dictionary object loaded a file, NLL of this state changed from {before_} to {after_} (or the caller's dictionary was altered)")
        buf.seek(0)
        state.load(buf)
        ud = gen.ref_unitary_dict(sc2)          # `born` and `inv_cond` read this name
        rows2 = [(r_["basis"], r_["u"]) for r_ in c["rows"]]
        want2, ok2, ks = 0.0, True, []
        for b, u in rows2:
            pb = born(model, b)
            pb = pb / pb.sum()
            k = int(torch.searchsorted(torch.cumsum(pb, 0), torch.tensor(u, dtype=R.F64), right=True).clamp(max=D - 1))
            ks.append(k)
            if float(pb[k]) < TINY or float(inv_cond(model, b)[k]) < 1e-6:
                ok2 = False
            want2 -= float(torch.log(pb[k])) / len(rows2)
        if ok2:
            sb2 = np.array([list(b) for b, _ in rows2]).reshape(len(rows2), n)
            nll2 = TS.NLL(state, R.rows_from_indices(ks, n), space, sample_bases=sb2)
            require(abs(nll2 - want2) <= 1e-8 * (1 + abs(want2)), "after-load:NLL", f"after load() of a file with other unitaries under the same letters NLL = {nll2}, expected {want2} with the loaded dictionary")
    hasY = any("Y" in b for b in (bases or []))
    nt = nonreal and (t == "positive" or hasY) and (not dens or c["A"]["r"] > 1)
    return {"nontrivial": nt, "excluded": excluded,
            "labels": gen.arch_label(sc) + [("bases=None" if bases is None else "bases=dict" if c["dict_form"] else "bases=list")] + (["has_Y"] if hasY else []) +
                      (["nll_bases"] if c["nll_with_bases"] else []) + (["space_default"] if c["space_default"] else [])}


SUBCHECKS = [Sub("metrics", check, strategy=lambda tier: cases(tier), quick=800, thorough=15000)]
