"""C04 - Measurement-basis rotations equal the tensor-product unitary they denote."""
import numpy as np
import torch
from hypothesis import strategies as st

from vf import gen, refmodel as R
from vf.common import Sub, require

PROPERTY = "C04"
RULE = ("Generated: (mode in {explicit psi, explicit rho, model complex, model positive, model density}, n 1..4, basis string "
        "over {X,Y,Z} + 0-2 user-added random 2x2 unitaries, operand = arbitrary complex vector / Hermitian (PSD or indefinite, "
        "non-symmetric) matrix or generated model parameters, a batch of outcome indices with repeats, include_extras flag). "
        "'allstrings' enumerates every string of {X,Y,Z}^n for n<=3 (quick) / n<=4 (thorough) in all five modes with a "
        "deterministic non-real operand; 'default_dict' checks the default dictionary itself. Oracle: dense Kronecker product U "
        "(site 0 leftmost), U psi, U rho U^dagger, their entries / diagonal at my own big-endian indices. Non-trivial = basis "
        "contains Y or a non-real user unitary AND has >= 2 distinct letters AND the operand has non-real entries.")
RULE_EXT = ("Extended as built: user unitaries from the angle family {0, +-pi, pi/2, 2pi, +-7, drawn}, given as tensors, nested lists or ndarrays (double precision kept); operand reuse sequences (same operand rotated in a second basis, Z-only first), transposed-view (non-contiguous) operands, index batches of 257-400 entries, explicit unitaries= equal to the state's own dictionary. Rounds 5-6: the state's own dictionary disagrees with the explicit unitaries= argument (explicit wins for every letter); create_dict keeps none of the caller's buffers and default dictionaries are independent.")
RULE_EXT += ' Round 10 (after an exception / long time axis): prelude on the state object in 1 case of 3: refused rotations with an explicit dictionary that swaps X and Y and lacks a letter (caught), then up to 41 different basis strings (the measured one first) before the measured rotations.'
RULE = RULE + " " + RULE_EXT
ASSUMPTIONS = ["explicit rho arguments are Hermitian (the property speaks of density matrices)",
               "Z is never overridden in a user dictionary (the library's fast path defines the reference basis by the letter Z)",
               "tolerance 1e-10*max|operand| for explicit operands, 1e-7 relative to max|ref| for model-derived ones (softplus threshold)"]

MODES = ["explicit_psi", "explicit_rho", "complex", "positive", "density"]


@st.composite
def cvec(draw, k, s=1.0):
    fl = st.floats(-s, s, allow_nan=False, width=64)
    return {"re": draw(st.lists(fl, min_size=k, max_size=k)), "im": draw(st.lists(fl, min_size=k, max_size=k))}


@st.composite
def cases(draw, tier):
    mode = draw(st.sampled_from(MODES))
    nmax = 4 if mode in ("explicit_psi", "complex", "positive") else 3
    n = draw(st.integers(1, nmax))
    c = {"mode": mode, "n": n}
    alphabet = "XYZ"
    if draw(st.integers(0, 2)) == 0:
        c["unitaries"] = draw(gen.user_unitaries())
        alphabet = "".join(sorted(set("XYZ") | set(c["unitaries"].keys())))
    c["unitary_key_order"] = draw(st.sampled_from([0, 0, 1, 2]))
    if c.get("unitaries") and draw(st.booleans()):
        c["unitaries_load"] = {k: [draw(gen.ANGLE) for _ in range(4)] for k in c["unitaries"]}     # other matrices under the same letters (for the load history)      # insertion order of the letters in the dictionary (see gen.lib_unitary_dict)
    c["basis"] = draw(gen.basis_string(n, alphabet))
    D = 2 ** n
    if mode == "explicit_psi":
        c["vec"] = draw(cvec(D, draw(st.sampled_from([1.0, 1e3]))))
    elif mode == "explicit_rho":
        c["mat"] = draw(cvec(D * D))
        c["psd"] = draw(st.booleans())
    else:
        sc = draw(gen.state_case(types=[mode], n=(n, n), nh=(1, 3), na=(1, 2), scales=[0.05, 0.5, 2.0, 8.0], bound=100.0))
        c["state"] = sc
    c["idx"] = draw(gen.index_list(n, 1, 6)) if draw(st.integers(0, 14)) else draw(gen.index_list(n, 257, 400))   # occasionally a large batch of outcomes
    c["extras"] = draw(st.booleans())
    c["layout"] = draw(st.sampled_from(["contiguous", "contiguous", "transposed_view"]))   # explicit operands as a non-contiguous view
    c["basis2"] = draw(gen.basis_string(n, alphabet))                                    # the same operand tensor is rotated again
    c["zfirst"] = draw(st.booleans())
    c["prelude"] = draw(st.integers(0, 2)) == 0
    if mode != "positive" and draw(st.integers(0, 3)) == 0:
        # the state carries ANOTHER dictionary of its own (other conventions for some of the same letters); the explicit unitaries=
        # argument must take precedence over it for every letter
        c["own_dict"] = draw(gen.user_unitaries(keys=tuple(sorted(set(alphabet) - {"Z"}))))
    return c


def build_operand(c):
    D = 2 ** c["n"]
    if c["mode"] == "explicit_psi":
        return torch.tensor(c["vec"]["re"], dtype=R.F64) + 1j * torch.tensor(c["vec"]["im"], dtype=R.F64)
    A = (torch.tensor(c["mat"]["re"], dtype=R.F64) + 1j * torch.tensor(c["mat"]["im"], dtype=R.F64)).reshape(D, D)
    return A @ A.conj().t() if c["psd"] else A + A.conj().t()


def lib_operand(z, layout):
    """explicit operand in the library's real-pair encoding; 'transposed_view' = same values, non-contiguous memory layout"""
    t = R.c_to_lib(z)
    if layout == "transposed_view" and t.dim() == 3:
        t = R.c_to_lib(z.t()).transpose(1, 2)
    elif layout == "transposed_view" and t.dim() == 2:
        t = R.c_to_lib(z).t().contiguous().t()
    return t


def check(c):
    r = check_one(c)
    if c.get("basis2") and c["mode"] in ("explicit_psi", "explicit_rho"):
        # history on one operand tensor: rotate in the reference basis (optional), then basis 1, then basis 2 - each result must
        # still be the rotation of the ORIGINAL operand
        check_reuse(c)
    if c["mode"] in ("complex", "density") and c.get("unitaries") and c.get("unitaries_load"):
        check_after_load(c)
    return r


def check_after_load(c):
    """lifecycle: a model that has ALREADY been rotated (fast paths used once) loads a file written by a twin with the same parameters but
    other matrices under the same letters; every rotation afterwards must use the loaded dictionary"""
    import io
    from qucumber.utils import unitaries as UN
    n, basis, mode = c["n"], c["basis"], c["mode"]
    sc = dict(c["state"], unitaries=c["unitaries"], unitary_key_order=c.get("unitary_key_order", 0))
    st_ = gen.build_state(sc)
    space = st_.generate_hilbert_space()
    states = R.rows_from_indices(c["idx"], n)
    (UN.rotate_psi_inner_prod if mode == "complex" else UN.rotate_rho_probs)(st_, basis, states.clone())     # first use, old dictionary
    (UN.rotate_psi if mode == "complex" else UN.rotate_rho)(st_, basis, space)
    sc2 = dict(sc, unitaries=c["unitaries_load"])
    twin = gen.build_state(sc2)
    buf = io.BytesIO()
    twin.save(buf)
    buf.seek(0)
    st_.load(buf)
    U2 = R.kron_U(gen.ref_unitary_dict(sc2), basis)
    am, ph = gen.ref_nets(sc)
    V = R.bits(n)
    if mode == "complex":
        ref = U2 @ R.psi_ref(am, ph, V)
        tol = 1e-7 * float(ref.abs().max())
        got_f = R.lib_to_c(UN.rotate_psi(st_, basis, space))
        got_i = R.lib_to_c(UN.rotate_psi_inner_prod(st_, basis, states.clone()))
        require(bool(torch.all((got_f - ref).abs() <= tol)) and bool(torch.all((got_i - ref[c["idx"]]).abs() <= tol)), "after-load:rotate_psi",
                f"after load() of a file with other unitaries under the same letters, rotate_psi / rotate_psi_inner_prod do not use the loaded dictionary (basis {basis})")
    else:
        rho = R.rho_ref(am, ph, V)
        ref = U2 @ rho @ U2.conj().t()
        tol = 1e-6 * float(rho.abs().max())
        got_f = R.lib_to_c(UN.rotate_rho(st_, basis, space))
        got_p = UN.rotate_rho_probs(st_, basis, states.clone()).double()
        require(bool(torch.all((got_f - ref).abs() <= tol)) and bool(torch.all((got_p - ref.diagonal().real[c["idx"]]).abs() <= tol)), "after-load:rotate_rho",
                f"after load() of a file with other unitaries under the same letters, rotate_rho / rotate_rho_probs do not use the loaded dictionary (basis {basis})")


def check_reuse(c):
    from qucumber.nn_states import ComplexWaveFunction, DensityMatrix
    from qucumber.utils import unitaries as UN
    n = c["n"]
    udict_ref, udict_lib = gen.ref_unitary_dict(c), gen.lib_unitary_dict(c)
    op = build_operand(c)
    t = lib_operand(op, c.get("layout", "contiguous"))
    keep = t.clone()
    states = R.rows_from_indices(c["idx"], n)
    seq = (["Z" * n] if c.get("zfirst") else []) + [c["basis"], c["basis2"]]
    if c["mode"] == "explicit_psi":
        st_ = ComplexWaveFunction(n, 1, unitary_dict=udict_lib, gpu=False)
        space = st_.generate_hilbert_space()
        for b in seq:
            U = R.kron_U(udict_ref, b)
            got = R.lib_to_c(UN.rotate_psi(st_, b, space, psi=t))
            require(bool(torch.all((got - U @ op).abs() <= 1e-10 * float(op.abs().max() + 1e-300))), "reuse:rotate_psi", f"rotating the same explicit psi tensor again (basis {b}, after {seq}) no longer gives U psi")
            g2 = R.lib_to_c(UN.rotate_psi_inner_prod(st_, b, states.clone(), psi=t))
            require(bool(torch.all((g2 - (U @ op)[c["idx"]]).abs() <= 1e-10 * float(op.abs().max() + 1e-300))), "reuse:rotate_psi_inner_prod", f"explicit psi reused (basis {b})")
    else:
        st_ = DensityMatrix(n, 1, 1, unitary_dict=udict_lib, gpu=False)
        space = st_.generate_hilbert_space()
        for b in seq:
            U = R.kron_U(udict_ref, b)
            want = U @ op @ U.conj().t()
            got = R.lib_to_c(UN.rotate_rho(st_, b, space, rho=t))
            require(bool(torch.all((got - want).abs() <= 1e-10 * float(op.abs().max() + 1e-300))), "reuse:rotate_rho", f"rotating the same explicit rho tensor again (basis {b}, sequence {seq}, layout {c.get('layout')}) no longer gives U rho U^dagger")
            g2 = UN.rotate_rho_probs(st_, b, states.clone(), rho=t).double()
            require(bool(torch.all((g2 - want.diagonal().real[c["idx"]]).abs() <= 1e-10 * float(op.abs().max() + 1e-300))), "reuse:rotate_rho_probs", f"explicit rho reused (basis {b})")
    require(torch.equal(t, keep), "explicit-operand-mutated", "a rotation modified the caller's explicit psi/rho tensor")


def prelude(c, st_, ukw, kw, dens):
    """history on the state object BEFORE the measured rotations.  After an exception: rotations with an explicit unitaries= dictionary that
    defines X and Y the other way round and lacks a letter of the basis (KeyError), or with too-narrow outcomes, caught as a caller would.
    Long time axis: up to 40 different basis strings rotated on this one object.  Nothing of this may influence the rotations that follow."""
    if not c.get("prelude"):
        return
    import itertools
    from qucumber.utils import unitaries as UN
    n = c["n"]
    f = UN.rotate_rho_probs if dens else UN.rotate_psi_inner_prod
    full = UN.rotate_rho if dens else UN.rotate_psi
    d0 = gen.lib_unitary_dict({})
    other = {"X": d0["Y"].clone(), "Y": d0["X"].clone(), "Z": d0["Z"].clone()}
    two = R.rows_from_indices([0, 2 ** n - 1], n)
    for bad in (lambda: f(st_, "Q" + "X" * (n - 1), two.clone(), unitaries=other, **kw), lambda: f(st_, "X" * (n - 1) + "Q", two.clone(), unitaries=other, **kw),
                lambda: f(st_, "X" * n, two[:, : n - 1].clone(), unitaries=other, **kw), lambda: full(st_, "Y" * (n - 1) + "Q", st_.generate_hilbert_space(), unitaries=other, **kw),
                lambda: f(st_, "X" * (n + 1), two.clone(), unitaries=other, **kw)):
        try:
            bad()
        except Exception:
            pass
    alphabet = sorted(set("XYZ") | set((c.get("unitaries") or {}).keys()))
    seq = [c["basis"]] + [b for b in ("".join(x) for x in itertools.product(alphabet, repeat=n)) if b != c["basis"]][:40]     # the measured basis first: it is the oldest one afterwards
    for b in seq:
        f(st_, b, two.clone(), **ukw, **kw)


def check_one(c):
    from qucumber.nn_states import ComplexWaveFunction, DensityMatrix, PositiveWaveFunction
    from qucumber.utils import unitaries as UN
    n, basis, mode = c["n"], c["basis"], c["mode"]
    D = 2 ** n
    udict_ref = gen.ref_unitary_dict(c)
    udict_lib = gen.lib_unitary_dict(c)
    U = R.kron_U(udict_ref, basis)
    idx = c["idx"]
    states = R.rows_from_indices(idx, n)
    V = R.bits(n)
    out = {}

    if mode in ("explicit_psi", "complex", "positive"):
        own = gen.lib_unitary_dict({"unitaries": dict(c.get("unitaries") or {}, **c["own_dict"])}) if c.get("own_dict") else None
        if mode == "explicit_psi":
            st_ = ComplexWaveFunction(n, 1, unitary_dict=own or udict_lib, gpu=False)
            psi = build_operand(c)
            kw = {"psi": R.c_to_lib(psi)}
            tol = 1e-10 * float(psi.abs().max() + 1e-300)
        else:
            sc = dict(c["state"])
            if mode == "complex" and c.get("unitaries"):
                sc["unitaries"] = c["unitaries"]
            if mode == "complex" and own:
                sc["unitaries"] = dict(c.get("unitaries") or {}, **c["own_dict"])
            st_ = gen.build_state(sc)
            am, ph = gen.ref_nets(sc)
            psi = R.psi_ref(am, ph, V)
            with R.library_precision():
                psi_prec = R.psi_ref(am, ph, V)          # precision tier (see c01.py)
            kw = {}
            tol = 1e-7 * float(psi.abs().max())
        ukw = {"unitaries": udict_lib} if (mode == "positive" or c.get("extras") or own) else {}      # explicit unitaries= (required for positive states) or the state's own dictionary
        space = st_.generate_hilbert_space()
        prelude(c, st_, ukw, kw, False)
        ref = U @ psi
        got = R.lib_to_c(UN.rotate_psi(st_, basis, space, **ukw, **kw))
        require(got.shape == (D,), "rotate_psi:shape", f"rotate_psi shape {tuple(got.shape)}")
        require(bool(torch.all((got - ref).abs() <= tol)), "rotate_psi!=U.psi", f"rotate_psi differs from the dense Kronecker product applied to psi (basis {basis})",
                worst=float((got - ref).abs().max()), tol=tol)
        res = UN.rotate_psi_inner_prod(st_, basis, states.clone(), include_extras=c["extras"], **ukw, **kw)
        if c["extras"]:
            tot, terms, v = res
            require(terms.dim() == 3 and bool(torch.all((terms.sum(1) - tot).abs() <= 1e-12 * (terms.abs().sum(1) + 1e-300))),
                    "inner_prod:extras", "the returned terms do not sum to the returned totals")
        else:
            tot = res
        got = R.lib_to_c(tot)
        require(got.shape == (len(idx),), "inner_prod:shape", f"rotate_psi_inner_prod shape {tuple(got.shape)}")
        require(bool(torch.all((got - ref[idx]).abs() <= tol)), "rotate_psi_inner_prod!=(U.psi)[idx]",
                f"rotate_psi_inner_prod differs from entries of U psi (basis {basis})", worst=float((got - ref[idx]).abs().max()), tol=tol)
        if mode != "explicit_psi":
            ref_p = U @ psi_prec
            tol_p = 1e-11 * float(psi_prec.abs().max())
            full_p = R.lib_to_c(UN.rotate_psi(st_, basis, space, **ukw))
            require(bool(torch.all((full_p - ref_p).abs() <= tol_p)) and bool(torch.all((got - ref_p[idx]).abs() <= tol_p)), "precision:rotate_psi",
                    f"rotate_psi / rotate_psi_inner_prod of the model's state are not accurate to double precision (basis {basis})", worst=float((full_p - ref_p).abs().max()), tol=tol_p)
        p = (ref.abs() ** 2)
        require(abs(float(p.sum()) - float((psi.abs() ** 2).sum())) <= 1e-9 * float((psi.abs() ** 2).sum()) + 1e-300, "oracle-unitarity", "reference U is not unitary?!")
        nonreal = bool((psi.imag.abs() > 1e-9 * psi.abs().max()).any())
    else:
        own = gen.lib_unitary_dict({"unitaries": dict(c.get("unitaries") or {}, **c["own_dict"])}) if c.get("own_dict") else None
        ukw = {"unitaries": udict_lib} if own else {}
        if mode == "explicit_rho":
            st_ = DensityMatrix(n, 1, 1, unitary_dict=own or udict_lib, gpu=False)
            rho = build_operand(c)
            kw = {"rho": R.c_to_lib(rho)}
            tol = 1e-10 * float(rho.abs().max() + 1e-300)
        else:
            sc = dict(c["state"])
            if c.get("unitaries"):
                sc["unitaries"] = c["unitaries"]
            if own:
                sc["unitaries"] = dict(c.get("unitaries") or {}, **c["own_dict"])
            st_ = gen.build_state(sc)
            am, ph = gen.ref_nets(sc)
            rho = R.rho_ref(am, ph, V)
            with R.library_precision():
                rho_prec = R.rho_ref(am, ph, V)
            kw = {}
            tol = 1e-6 * float(rho.abs().max())
        space = st_.generate_hilbert_space()
        prelude(c, st_, ukw, kw, True)
        ref = U @ rho @ U.conj().t()
        got = R.lib_to_c(UN.rotate_rho(st_, basis, space, **ukw, **kw))
        require(got.shape == (D, D), "rotate_rho:shape", f"rotate_rho shape {tuple(got.shape)}")
        require(bool(torch.all((got - ref).abs() <= tol)), "rotate_rho!=U.rho.Udag", f"rotate_rho differs from U rho U^dagger (basis {basis})",
                worst=float((got - ref).abs().max()), tol=tol)
        res = UN.rotate_rho_probs(st_, basis, states.clone(), include_extras=c["extras"], **ukw, **kw)
        if c["extras"]:
            tot, terms, v = res
            s = R.lib_to_c(terms).sum(dim=(0, 1))
            require(bool(torch.all((s.real - tot).abs() <= 1e-12 * (R.lib_to_c(terms).abs().sum(dim=(0, 1)) + 1e-300))),
                    "rho_probs:extras", "the returned terms do not sum to the returned totals")
        else:
            tot = res
        pref = ref.diagonal().real
        require(tuple(tot.shape) == (len(idx),), "rho_probs:shape", f"rotate_rho_probs shape {tuple(tot.shape)}")
        require(bool(torch.all((tot.double() - pref[idx]).abs() <= tol)), "rotate_rho_probs!=diag(U.rho.Udag)[idx]",
                f"rotate_rho_probs differs from the diagonal of U rho U^dagger (basis {basis}, {'explicit rho' if kw else 'model rho'})",
                got=tot.tolist(), ref=pref[idx].tolist())
        if mode == "density":
            ref_p = U @ rho_prec @ U.conj().t()
            tol_p = (1e-11 + 1e-14 / max(gen.min_aux_factor(sc), 1e-12)) * float(rho_prec.abs().max())      # see c02.py: digits lost where an auxiliary-unit factor nearly vanishes
            full_p = R.lib_to_c(UN.rotate_rho(st_, basis, space, **ukw))
            require(bool(torch.all((full_p - ref_p).abs() <= tol_p)) and bool(torch.all((tot.double() - ref_p.diagonal().real[idx]).abs() <= tol_p)), "precision:rotate_rho",
                    f"rotate_rho / rotate_rho_probs of the model's state are not accurate to double precision (basis {basis})", worst=float((full_p - ref_p).abs().max()), tol=tol_p)
        if mode == "density" or c.get("psd"):
            full = UN.rotate_rho_probs(st_, basis, V.clone(), **ukw, **kw).double()
            require(bool(torch.all(full >= -1e-9 * rho.abs().max())), "rotated-probs-negative", "rotated Born probabilities of a physical state are negative")
            tr = float(rho.diagonal().real.sum())
            require(abs(float(full.sum()) - tr) <= 1e-6 * tr + tol, "rotated-probs-sum", "rotated probabilities do not sum to the normalisation", s=float(full.sum()), tr=tr)
        nonreal = bool((rho.imag.abs() > 1e-9 * rho.abs().max()).any())
    letters = set(basis)
    cplx_letter = "Y" in letters or any(k in letters for k in (c.get("unitaries") or {}))
    return {"nontrivial": bool(cplx_letter and len(letters) >= 2 and nonreal),
            "labels": ["mode=" + mode] + (["has_Y"] if "Y" in letters else []) + (["all_Z"] if letters == {"Z"} else []) +
                      (["user_unitary"] if c.get("unitaries") else []) + (["explicit_dict_overrides_own"] if c.get("own_dict") else []) + (["mixed_sites"] if len(letters) >= 2 else [])}


def _fill(k, salt):
    return [2 * ((0.37 + (i + 1) * 0.6180339887498949 + salt * 0.7548776662466927) % 1.0) - 1 for i in range(k)]


def allstrings(tier):
    out = []
    nmax = 3 if tier == "quick" else 4
    for n in range(1, nmax + 1):
        D = 2 ** n
        for bi, basis in enumerate(gen.basis_strings(n)):
            for mode in MODES:
                if mode == "density" and n == 4 and bi % 3:
                    continue
                c = {"mode": mode, "n": n, "basis": basis, "idx": [(3 * j + bi) % D for j in range(min(D, 5))] + [0], "extras": bool(bi % 2)}
                if mode == "explicit_psi":
                    c["vec"] = {"re": _fill(D, bi), "im": _fill(D, bi + 1)}
                elif mode == "explicit_rho":
                    c["mat"] = {"re": _fill(D * D, bi), "im": _fill(D * D, bi + 1)}
                    c["psd"] = bool((bi // 2) % 2)
                else:
                    nh, na = 2, 2
                    def net(s, aux):
                        d = {"W": [_fill(n, s + 10 * r) for r in range(nh)], "b": _fill(n, s + 1), "c": _fill(nh, s + 2)}
                        if aux:
                            d["U"] = [_fill(n, s + 3 + 10 * r) for r in range(na)]
                            d["d"] = _fill(na, s + 4)
                        return d
                    sc = {"type": mode, "n": n, "nh": nh, "am": net(bi, mode == "density")}
                    if mode != "positive":
                        sc["ph"] = net(bi + 5, mode == "density")
                    if mode == "density":
                        sc["na"] = na
                        sc["ph"]["d"] = [0.0] * na
                    c["state"] = sc
                out.append(c)
    return out


def check_default_dict(c):
    from qucumber.utils import unitaries as UN
    d = UN.create_dict()
    require(set(d.keys()) == {"X", "Y", "Z"}, "dict:keys", f"default dictionary keys {sorted(d.keys())}")
    ref = R.default_unitaries()
    for k in "XYZ":
        u = R.lib_to_c(d[k])
        require(u.shape == (2, 2), "dict:shape", f"{k} has shape {tuple(u.shape)}")
        require(bool(torch.all((u @ u.conj().t() - torch.eye(2)).abs() <= 1e-12)), "dict:unitary", f"default {k} is not unitary")
    require(bool(torch.all((R.lib_to_c(d["Z"]) - torch.eye(2)).abs() == 0)), "dict:Z", "default Z is not the identity")
    for k in "XY":
        u = R.lib_to_c(d[k])
        P = R.PAULI[k]
        dg = u @ P @ u.conj().t()
        require(bool(torch.all((dg - torch.diag(torch.tensor([1.0, -1.0], dtype=R.C128))).abs() <= 1e-12)), "dict:eigvec-order",
                f"rows of the default {k} unitary are not the +1,-1 eigenvectors (in that order) of Pauli {k}", got=str(dg.tolist()))
        # rows are the bras of the eigenvectors: row0 . P = +row0
        require(bool(torch.all((u[0] @ P - u[0]).abs() <= 1e-12)) and bool(torch.all((u[1] @ P + u[1]).abs() <= 1e-12)), "dict:rows",
                f"rows of default {k} are not eigen-bras")
    # user-added operators: kept, defaults overridable
    extra = UN.create_dict(H=R.c_to_lib(R.unitary_from_angles(*c["ang"])), X=R.c_to_lib(R.unitary_from_angles(*c["ang2"])))
    require(set(extra.keys()) == {"X", "Y", "Z", "H"}, "dict:user-keys", "create_dict(**kwargs) does not add the user's operators")
    require(bool(torch.all((R.lib_to_c(extra["H"]) - R.unitary_from_angles(*c["ang"])).abs() <= 1e-15)), "dict:user-value", "user operator altered")
    require(bool(torch.all((R.lib_to_c(extra["X"]) - R.unitary_from_angles(*c["ang2"])).abs() <= 1e-15)), "dict:user-override", "user override of X ignored")
    # operators given as nested lists / numpy arrays instead of tensors
    as_list = R.c_to_lib(R.unitary_from_angles(*c["ang"])).tolist()
    d2 = UN.create_dict(H=as_list, Q=np.array(as_list))
    for k in ("H", "Q"):
        require(isinstance(d2[k], torch.Tensor) and d2[k].dtype == torch.double and bool(torch.all((R.lib_to_c(d2[k]) - R.unitary_from_angles(*c["ang"])).abs() <= 1e-15)),
                "dict:user-list-form", f"user operator {k} given as nested list / ndarray is not stored as the same double tensor")
    require(all(bool(torch.all(R.lib_to_c(extra[k]) == R.lib_to_c(d[k]))) for k in "YZ"), "dict:defaults-changed", "adding user operators changed an untouched default")
    # the dictionary owns its entries: the caller's source buffers (double tensor, float64 ndarray, float32 tensor) are re-used for
    # something else afterwards, and the returned entries are edited by nobody
    want = R.unitary_from_angles(*c["ang"])
    src_t = R.c_to_lib(want).clone()
    src_a = np.array(R.c_to_lib(want).tolist(), dtype=np.float64)
    d3 = UN.create_dict(H=src_t, Q=src_a)
    src_t.mul_(-1.0)
    src_a *= -1.0
    for k in ("H", "Q"):
        require(bool(torch.all((R.lib_to_c(d3[k]) - want).abs() <= 1e-15)), "dict:keeps-callers-buffer",
                f"the dictionary entry {k} changed when the caller re-used the tensor / array it had passed to create_dict")
    d4 = UN.create_dict()
    d4["X"].mul_(0.0)
    require(bool(torch.all(R.lib_to_c(UN.create_dict()["X"]) == R.lib_to_c(d["X"]))), "dict:shared-defaults", "editing one default dictionary's entry changed the next create_dict()")
    return {}


SUBCHECKS = [
    Sub("rotations", check, strategy=lambda tier: cases(tier), quick=1600, thorough=40000),
    Sub("allstrings", check, enumerate=allstrings),
    Sub("default_dict", check_default_dict,
        strategy=lambda tier: st.fixed_dictionaries({"ang": st.lists(gen.ANGLE, min_size=4, max_size=4), "ang2": st.lists(gen.ANGLE, min_size=4, max_size=4)}),
        quick=20, thorough=200),
]
