"""C20 - Model construction and reset honour their documented contracts."""
import numpy as np
import torch
from hypothesis import strategies as st

from vf import gen, refmodel as R
from vf.common import Sub, require, expect_raises

PROPERTY = "C20"
RULE = ("Generated lifecycles (op programs): construct a state of one of the three types either from sizes (num_hidden / num_aux "
        "explicit or defaulted) or from a user-supplied RBM module with generated parameters, then a drawn sequence of ops: mutate "
        "one network in place | reinitialise | train 1-2 epochs with a drawn optimizer (SGD, SGD+momentum+weight decay, Adam, RMSprop, "
        "Adadelta) | train WITHOUT bases | evaluate the phase-gradient slices. Post-conditions after construction and invariants "
        "after every op: requested shapes (defaults = num_visible), zero biases and non-zero random weights from sizes, amplitude "
        "network IS the user's module (same parameter storage), phase network equal in value at construction but storage-disjoint, "
        "a change to one network never shows in the other, reinitialise redraws every parameter of every network with unchanged "
        "shapes, training a complex/mixed state without bases raises ValueError before any event fires / parameter changes / RNG "
        "advances, the mixed state's phase-network auxiliary bias is unchanged (exactly 0 from sizes) after every optimizer step "
        "and the corresponding gradient slices are exactly 0. Non-trivial = a module-constructed complex/density state followed by "
        "an in-place mutation, or a density state trained >= 2 steps with a non-SGD optimizer.")
RULE_EXT = ('Extended as built: poison_reinit (NaN written then reinitialise), numpy int64/int32 sizes, n up to 9, gpu argument default / True on a CPU-only host, divergence-guarded training (excluded and counted). Rounds 5-6: user module created with zero_weights=True; the initialize_parameters(zero_weights=...) method of the networks called directly; num_aux = 0 given explicitly.')
RULE_EXT += ' Round 10 (after an exception / long time axis): op aborted_fit (exception from a user callback in on_batch_end / on_epoch_end / on_train_start, caught) before reinitialise / train / mutate ops; training with k in {20, 25} Gibbs steps.'
RULE = RULE + " " + RULE_EXT
ASSUMPTIONS = ["CPU only (gpu=False)", "user modules are BinaryRBM / PurificationRBM instances as documented"]

OPTS = ["sgd", "sgd_mom_wd", "adam", "rmsprop", "adadelta"]


@st.composite
def lifecycles(draw, tier):
    t = draw(st.sampled_from(gen.TYPES))
    n = draw(st.integers(1, 4)) if draw(st.integers(0, 9)) else draw(st.integers(5, 9))
    how = draw(st.sampled_from(["sizes", "module"]))
    c = {"type": t, "n": n, "how": how, "seed": draw(st.integers(0, 2 ** 31 - 1))}
    if how == "sizes":
        c["nh"] = draw(st.one_of(st.none(), st.integers(1, 5)))
        c["na"] = draw(st.one_of(st.none(), st.integers(1, 4), st.integers(0, 4))) if t == "density" else None    # 0 = no purification units (a pure state), an explicit size
        c["positional"] = draw(st.booleans())
        c["size_form"] = draw(st.sampled_from(["int", "int", "np.int64", "np.int32"]))    # e.g. sizes computed with numpy
        c["gpu_arg"] = draw(st.sampled_from(["False", "False", "default", "True"]))        # no CUDA here: documented fallback to the CPU
    else:
        nh = draw(st.integers(1, 4))
        na = draw(st.integers(1, 3)) if t == "density" else None
        c["nh"], c["na"] = nh, na
        c["params"] = draw(gen.net_params(n, nh, na, [0.05, 0.5, 2.0]))
        c["zero_d"] = draw(st.booleans())
        c["module_zero_weights"] = draw(st.booleans())
        c["mutate_before_phase_access"] = draw(st.booleans())      # the user's module was created with zero_weights=True (then given its parameters)
        if c["zero_d"] and na is not None:
            c["params"]["d"] = [0.0] * na
    ops = []
    for _ in range(draw(st.integers(1, 6))):
        k = draw(st.sampled_from(["mutate_am", "mutate_ph", "reinit", "train", "train", "train_no_bases", "grad_slices", "poison_reinit", "rbm_init_zero", "rbm_init_random", "sibling_reinit_then_train", "aborted_fit", "aborted_fit"]))
        op = {"op": k}
        if k.startswith("mutate"):
            op["delta"] = draw(st.floats(0.5, 2.0, allow_nan=False, width=64))
            op["which"] = draw(st.integers(0, 4))
        if k == "train":
            op["opt"] = draw(st.sampled_from(OPTS))
            op["epochs"] = draw(st.integers(1, 2))
            op["k"] = draw(st.sampled_from([1, 1, 1, 2, 20, 25]))        # time axis: occasionally many Gibbs steps per update
        ops.append(op)
    c["ops"] = ops
    return c


def ptrs(rbm):
    return {p.data_ptr() for p in rbm.parameters() if p.numel() > 0}


def storage_disjoint(a, b):
    sa = {p.untyped_storage().data_ptr() for p in a.parameters() if p.numel() > 0}     # empty tensors (a layer of size 0) have no storage to share
    sb = {p.untyped_storage().data_ptr() for p in b.parameters() if p.numel() > 0}
    return not (sa & sb)


def snap(rbm):
    return {k: v.detach().clone() for k, v in rbm.named_parameters()}


def same(a, b):
    return a.keys() == b.keys() and all(torch.equal(a[k], b[k]) for k in a)


def check(c):
    import qucumber
    from qucumber.callbacks import LambdaCallback
    from qucumber.nn_states import ComplexWaveFunction, DensityMatrix, PositiveWaveFunction
    from qucumber.rbm import BinaryRBM, PurificationRBM
    t, n = c["type"], c["n"]
    cls = {"positive": PositiveWaveFunction, "complex": ComplexWaveFunction, "density": DensityMatrix}[t]
    qucumber.set_random_seed(c["seed"], cpu=True, gpu=False, quiet=True)
    has_ph = t != "positive"
    nt = False
    labels = [f"type={t}", "how=" + c["how"]]
    if c["how"] == "sizes":
        nh, na = c["nh"], c["na"]
        conv = {"int": int, "np.int64": np.int64, "np.int32": np.int32}[c.get("size_form", "int")]
        cv = lambda x: None if x is None else conv(x)
        import warnings
        gkw = {"False": {"gpu": False}, "default": {}, "True": {"gpu": True}}[c.get("gpu_arg", "False")]
        with warnings.catch_warnings():
            warnings.simplefilter("ignore")
            if t == "density":
                state = cls(cv(n), cv(nh), cv(na), **gkw) if c["positional"] else cls(num_visible=cv(n), num_hidden=cv(nh), num_aux=cv(na), **gkw)
            else:
                state = cls(cv(n), cv(nh), **gkw) if c["positional"] else cls(num_visible=cv(n), num_hidden=cv(nh), **gkw)
        require(str(state.device) == "cpu" and all(str(p_.device) == "cpu" for net in state.networks for p_ in getattr(state, net).parameters()),
                "sizes:device", "without CUDA the state must live on the CPU whatever the gpu argument")
        labels.append("size_form=" + c.get("size_form", "int"))
        enh, ena = (nh or n), ((n if na is None else na) if t == "density" else None)
        for net in state.networks:
            rbm = getattr(state, net)
            W = rbm.weights_W if t == "density" else rbm.weights
            require(tuple(W.shape) == (enh, n) and tuple(rbm.visible_bias.shape) == (n,) and tuple(rbm.hidden_bias.shape) == (enh,), "sizes:shapes",
                    f"{net}: shapes W{tuple(W.shape)} b{tuple(rbm.visible_bias.shape)} c{tuple(rbm.hidden_bias.shape)} for requested n={n}, nh={nh}")
            require((rbm.num_visible, rbm.num_hidden) == (n, enh), "sizes:attributes", f"{net}: num_visible/num_hidden = {(rbm.num_visible, rbm.num_hidden)}")
            require(bool((rbm.visible_bias == 0).all()) and bool((rbm.hidden_bias == 0).all()), "sizes:biases", f"{net}: biases are not exactly zero after construction")
            require(bool((W != 0).any()), "sizes:weights", f"{net}: weights are all zero after construction")
            if t == "density":
                require(tuple(rbm.weights_U.shape) == (ena, n) and tuple(rbm.aux_bias.shape) == (ena,) and rbm.num_aux == ena, "sizes:shapes", f"{net}: aux shapes wrong for na={na}")
                require(bool((rbm.aux_bias == 0).all()) and (ena == 0 or bool((rbm.weights_U != 0).any())), "sizes:biases", f"{net}: aux bias not zero / weights_U all zero")
        require((state.num_visible, state.num_hidden) == (n, enh), "sizes:attributes", "state.num_visible/num_hidden wrong")
        if has_ph:
            require(storage_disjoint(state.rbm_am, state.rbm_ph), "sizes:aliased-networks", "amplitude and phase networks share storage")
            Wa = state.rbm_am.weights_W if t == "density" else state.rbm_am.weights
            Wp = state.rbm_ph.weights_W if t == "density" else state.rbm_ph.weights
            require(not torch.equal(Wa, Wp), "sizes:identical-networks", "amplitude and phase networks were initialised to identical weights")
        aux0 = torch.zeros(ena) if t == "density" else None
    else:
        nh, na = c["nh"], c["na"]
        zkw = {"zero_weights": True} if c.get("module_zero_weights") else {}
        module = PurificationRBM(n, nh, na, gpu=False, **zkw) if t == "density" else BinaryRBM(n, nh, gpu=False, **zkw)
        if zkw:
            Wm = module.weights_W if t == "density" else module.weights
            require(bool((Wm == 0).all()) and all(bool((p_ == 0).all()) for p_ in module.parameters()), "module:zero_weights", "an RBM created with zero_weights=True has non-zero parameters")
        gen.set_net(module, c["params"])
        before = snap(module)
        mptrs = ptrs(module)
        state = cls(n, gpu=False, module=module)
        if c.get("mutate_before_phase_access") and has_ph:
            # the order of the first accesses is immaterial: the amplitude network (= the user's module) is changed in place BEFORE the phase
            # network is looked at for the first time; the phase network must still be the copy taken at construction
            for p_ in module.parameters():
                p_.data.add_(0.5)
            require(same(snap(state.rbm_ph), before), "module:phase-copied-late", "the phase network follows a change made to the module after construction (it was not copied at construction time)")
            for p_ in module.parameters():
                p_.data.sub_(0.5)
            for k_, v_ in before.items():          # restore the exact construction-time values (x + 0.5 - 0.5 may differ from x in the last bit)
                dict(module.named_parameters())[k_].data.copy_(v_)
            labels.append("amplitude_changed_before_first_phase_access")
        require(state.rbm_am is module or ptrs(state.rbm_am) == mptrs, "module:not-used", "the user-supplied RBM is not used as the amplitude network (different parameter storage)")
        require(same(snap(state.rbm_am), before), "module:params-changed", "constructing from a module changed the module's parameters")
        require((state.num_visible, state.num_hidden) == (n, nh) and (t != "density" or state.num_aux == na), "module:sizes", "state sizes do not follow the module's sizes")
        if has_ph:
            require(type(state.rbm_ph) is type(module), "module:phase-type", f"phase network is a {type(state.rbm_ph).__name__}")
            require(same(snap(state.rbm_ph), before), "module:phase-not-a-copy", "phase network is not equal in value to the supplied module at construction")
            require(storage_disjoint(state.rbm_am, state.rbm_ph) and state.rbm_ph is not state.rbm_am, "module:phase-aliased", "phase network shares storage with the amplitude network")
        aux0 = state.rbm_ph.aux_bias.detach().clone() if t == "density" else None

    data = torch.tensor([R.index_to_row(k % (2 ** n), n) for k in range(4)], dtype=torch.double)
    data[1] = 0.0     # the rotated rows use the all-zeros outcome (generically non-negligible amplitude)
    data[3] = 0.0
    bases = np.array([["Z"] * n, ["X"] * n, ["Z"] * n, ["Y"] + ["Z"] * (n - 1)])
    mutated = False
    for op in c["ops"]:
        k = op["op"]
        if k.startswith("mutate"):
            net = "rbm_am" if k == "mutate_am" or not has_ph else "rbm_ph"
            other = "rbm_ph" if net == "rbm_am" else "rbm_am"
            params = list(getattr(state, net).parameters())
            tgt = params[op["which"] % len(params)]
            if t == "density" and net == "rbm_ph" and tgt is state.rbm_ph.aux_bias:
                tgt = params[0]
            keep_other = snap(getattr(state, other)) if has_ph else None
            tgt.data.add_(op["delta"])
            if has_ph:
                require(same(snap(getattr(state, other)), keep_other), "aliasing:mutation-leaks", f"an in-place change of {net} showed up in {other}")
                if c["how"] == "module":
                    nt = True
            mutated = True
            labels.append("mutation")
        elif k in ("reinit", "poison_reinit"):
            if k == "poison_reinit":
                # a diverged run leaves inf / nan behind; reinitialising must still give zero biases and fresh finite weights
                for net in state.networks:
                    rb = getattr(state, net)
                    rb.visible_bias.data[0] = float("inf")
                    rb.hidden_bias.data[-1] = float("nan")
                    W = rb.weights_W if t == "density" else rb.weights
                    W.data[0, 0] = float("-inf")
                labels.append("poisoned")
            shapes = {net: {kk: tuple(v.shape) for kk, v in snap(getattr(state, net)).items()} for net in state.networks}
            olds = {net: snap(getattr(state, net)) for net in state.networks}
            state.reinitialize_parameters()
            for net in state.networks:
                new = snap(getattr(state, net))
                require({kk: tuple(v.shape) for kk, v in new.items()} == shapes[net], "reinit:shapes", f"reinitialising changed the shapes of {net}")
                for kk, v in new.items():
                    if "bias" in kk:
                        require(bool((v == 0).all()), "reinit:biases", f"{net}.{kk} is not zero after reinitialising")
                    else:
                        require(v.numel() == 0 or (not torch.equal(v, olds[net][kk]) and bool((v != 0).any()) and bool(torch.isfinite(v).all())), "reinit:weights-not-redrawn", f"{net}.{kk} was not redrawn (to finite random values) by reinitialize_parameters")
            if has_ph:
                require(storage_disjoint(state.rbm_am, state.rbm_ph), "reinit:aliased-networks", "networks share storage after reinitialising")
            if t == "density":
                aux0 = torch.zeros_like(state.rbm_ph.aux_bias)
        elif k in ("rbm_init_zero", "rbm_init_random"):
            # the networks' own public (re)initialiser called directly: all biases zero, weights all zero / freshly random, shapes kept
            for net in state.networks:
                rb = getattr(state, net)
                old_ = snap(rb)
                rb.initialize_parameters(zero_weights=True) if k == "rbm_init_zero" else rb.initialize_parameters()
                for kk, v in snap(rb).items():
                    require(tuple(v.shape) == tuple(old_[kk].shape), "rbm-init:shapes", f"{net}.{kk} changed shape in initialize_parameters")
                    if "bias" in kk or k == "rbm_init_zero":
                        require(bool((v == 0).all()), "rbm-init:not-zero", f"{net}.{kk} is not zero after initialize_parameters({'zero_weights=True' if k == 'rbm_init_zero' else ''})")
                    else:
                        require(v.numel() == 0 or (not torch.equal(v, old_[kk]) and bool((v != 0).any())), "rbm-init:weights-not-redrawn", f"{net}.{kk} was not redrawn by initialize_parameters()")
            if has_ph:
                require(storage_disjoint(state.rbm_am, state.rbm_ph), "rbm-init:aliased-networks", "networks share storage after initialize_parameters")
            if t == "density":
                aux0 = torch.zeros_like(state.rbm_ph.aux_bias)
            labels.append(k)
        elif k == "aborted_fit":
            # after an exception: a training run aborted by a user callback (caught); the ops that follow (reinitialise, train, mutate ...) must
            # behave as documented
            gen.abort_a_fit(state, data, bases if has_ph else None, hook=["on_batch_end", "on_epoch_end", "on_train_start"][len(labels) % 3])
            if t == "density":
                aux0 = state.rbm_ph.aux_bias.detach().clone()
            labels.append(k)
        elif k == "sibling_reinit_then_train":
            # shared object: a SECOND state is built on the same user module; this state trains, the sibling reinitialises (the module gets new
            # parameter objects), this state trains again: the second training must move the module's CURRENT parameters
            if c["how"] != "module":
                continue
            kw_ = {"input_bases": bases} if has_ph else {}
            sib = cls(n, gpu=False, module=module)
            guard_, div_ = gen.divergence_guard()
            state.fit(data, epochs=1, pos_batch_size=2, lr=0.05, callbacks=[guard_], **kw_)
            sib.reinitialize_parameters()
            cur = snap(module)
            require(state.rbm_am is module and ptrs(state.rbm_am) == ptrs(module), "shared-module:amplitude-detached", "after a sibling state reinitialised the shared module, this state's amplitude network is no longer that module")
            # (weight decay: every non-zero weight moves whatever the data gradient is - on a one-qubit model the CD gradient of a batch is
            # exactly zero whenever the chain returns to the data, and parameters that legitimately stay put are no violation)
            state.fit(data, epochs=1, pos_batch_size=2, lr=0.05, callbacks=[guard_], optimizer=torch.optim.SGD, optimizer_args={"weight_decay": 0.5}, **kw_)
            if div_[0]:
                state.stop_training = False
                return {"nontrivial": False, "excluded": 1, "labels": sorted(set(labels + ["diverged"]))}
            require(not same(snap(module), cur) or all(float(v_.abs().max()) == 0.0 for k_, v_ in cur.items() if "weights" in k_ and v_.numel()), "shared-module:training-misses-current-parameters",
                    "after a sibling state built on the same module reinitialised it, training this state no longer moves the module's current parameters")
            if t == "density":
                aux0 = state.rbm_ph.aux_bias.detach().clone()
            labels.append(k)
        elif k == "train":
            oc, oa = {"sgd": (torch.optim.SGD, {}), "sgd_mom_wd": (torch.optim.SGD, {"momentum": 0.9, "weight_decay": 0.01}), "adam": (torch.optim.Adam, {}),
                      "rmsprop": (torch.optim.RMSprop, {}), "adadelta": (torch.optim.Adadelta, {})}[op["opt"]]
            steps = [0]
            diverged = [False]
            def on_be(s, e, b):
                steps[0] += 1
                if not all(bool(torch.isfinite(p).all()) for net in s.networks for p in getattr(s, net).parameters()):
                    diverged[0] = True          # ill-conditioned data for these parameters (zero-probability outcome): not this property's business
                    s.stop_training = True
                    return
                # "stays zero": asserted when it starts at zero (always for states built from sizes; for a user module only if the
                # module's auxiliary bias is zero - a non-zero copy is legitimately subject to e.g. weight decay)
                if t == "density" and bool((aux0 == 0).all()):
                    require(bool((s.rbm_ph.aux_bias == 0).all()), "phase-aux-bias-moved",
                            f"the phase network's auxiliary bias left zero during training with {op['opt']} (step {steps[0]})", value=s.rbm_ph.aux_bias.tolist())
            kw = {"input_bases": bases} if has_ph else {}
            state.fit(data, epochs=op["epochs"], pos_batch_size=2, lr=0.05, k=op.get("k", 1), optimizer=oc, optimizer_args=oa, callbacks=[LambdaCallback(on_batch_end=on_be)], **kw)
            if diverged[0]:
                state.stop_training = False
                return {"nontrivial": False, "excluded": 1, "labels": sorted(set(labels + ["diverged"]))}
            if t == "density":
                aux0 = state.rbm_ph.aux_bias.detach().clone()
            if t == "density" and steps[0] >= 2 and op["opt"] != "sgd":
                nt = True
            labels.append("opt=" + op["opt"])
        elif k == "train_no_bases":
            if not has_ph:
                continue
            keep = {net: snap(getattr(state, net)) for net in state.networks}
            fired = []
            rng = torch.get_rng_state()
            cb = LambdaCallback(on_train_start=lambda s: fired.append("TS"), on_epoch_start=lambda s, e: fired.append("ES"), on_batch_start=lambda s, e, b: fired.append("BS"))
            expect_raises(ValueError, lambda: state.fit(data, epochs=1, pos_batch_size=2, callbacks=[cb]), "no-bases:not-refused", f"training a {t} state without input_bases")
            require(not fired, "no-bases:events-fired", f"events {fired} fired before the missing bases were refused")
            require(all(same(snap(getattr(state, net)), keep[net]) for net in state.networks), "no-bases:params-changed", "parameters changed although training was refused")
            require(torch.equal(torch.get_rng_state(), rng), "no-bases:rng-advanced", "the torch RNG advanced although training was refused")
        elif k == "grad_slices":
            if t != "density":
                continue
            v = torch.tensor([R.index_to_row(j % (2 ** n), n) for j in range(3)], dtype=torch.double)
            na_ = state.rbm_ph.num_aux
            g = state.rbm_ph.gamma_grad(v, v, eta=-1, expand=True)
            require(bool((g[..., g.shape[-1] - na_:] == 0).all()), "grad-slices:gamma", "gamma_grad has a non-zero auxiliary-bias slice")
            pg = state.pi_grad(v, v, phase=True, expand=True)
            require(bool((pg[..., pg.shape[-1] - na_:] == 0).all()), "grad-slices:pi", "pi_grad(phase=True) has a non-zero auxiliary-bias slice")
            pg2 = state.pi_grad(v, v, phase=True, expand=False)
            require(bool((pg2[..., pg2.shape[-1] - na_:] == 0).all()), "grad-slices:pi", "pi_grad(phase=True, expand=False) has a non-zero auxiliary-bias slice")
    return {"nontrivial": nt, "labels": sorted(set(labels))}


SUBCHECKS = [Sub("lifecycle", check, strategy=lambda tier: lifecycles(tier), quick=480, thorough=6000, per_shard=10)]
