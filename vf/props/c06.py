"""C06 - Each training step applies exactly the contrastive-divergence update."""
import numpy as np
import torch
from hypothesis import strategies as st

from vf import gen, refmodel as R
from vf.common import Sub, require
from vf.props.c03 import born_rows, ref_grads, MIN_ROW_PROB

PROPERTY = "C06"
RULE = ("Generated training runs: state type (3), n 1..3, N 1..9 rows (bases per row for complex/density, first row all-Z), "
        "pos_batch_size 1..5, neg_batch_size None/1..5, k 0..3, lr in [1e-3,1], epochs 1..3, optional StepLR(step_size=1,gamma), starting_epoch in {0,1,2,3,5}, "
        "drawn torch seed. Instrumentation through public API only: a recording torch.optim.SGD subclass passed as optimizer= "
        "(snapshots parameters, .grad and lr at every step), compute_batch_gradients and rbm_am.gibbs_steps wrapped on the "
        "instance (batch, negative batch, bases, chain end state v_k). Oracle for EVERY step t: .grad of each named parameter = "
        "autograd positive phase of the reference NLL at the snapshot parameters minus (amplitude net only) the mean reference "
        "energy gradient over v_k; theta_{t+1} = theta_t - lr_t*grad_t; one step per batch; lr constant within an epoch and "
        "multiplied by gamma exactly once between epochs. Non-trivial = neg_batch_size != pos_batch_size, N not a multiple of "
        "the batch size, k >= 1, >= 2 steps and (complex/density) a rotated row present.")
RULE_EXT = ('Extended as built: up to three consecutive fit() stages (optionally reinitialising in between) on the same state, optimizer_args dict must be unchanged, positive batches must be data rows, neg_batch_size up to 300, polarised parameters / rare outcomes, runs stopped by a divergence guard are counted as excluded. Rounds 5-6: momentum / weight-decay optimizer_args with the reference recursion (fresh buffers per fit), StepLR(2) and ExponentialLR schedulers, uniformly negative polarised biases with a forced rare outcome in a basis with exactly one rotated site, num_aux = 0.')
RULE_EXT += ' Round 10 (after an exception / long time axis): a fit() aborted by an exception in on_batch_end / on_epoch_end before the verified run; runs of 33-35 epochs.'
RULE_EXT += ' Round 11 (re-entrant use / feature interactions): a busy callback (gen.busy_callback: read-only public calls on the trained state and a one-epoch fit of ANOTHER state from inside every hook) in 1 run of 4.'
RULE = RULE + " " + RULE_EXT
ASSUMPTIONS = ["outcomes drawn from the reference Born distribution at the initial parameters; a run is only followed while the reference gradient stays finite and < 1e6",
               "gradient tolerance 1e-6*(1+max|g_ref|), SGD update rtol 1e-12 (fused add differs from b - lr*g by 1 ulp)"]


@st.composite
def runs(draw, tier):
    t = draw(st.sampled_from(gen.TYPES))
    sc = draw(gen.state_case(types=[t], n=(1, 3), nh=(1, 3), na=(1, 2), scales=[0.05, 0.5, 0.5, 2.0, 2.0, 8.0, 20.0], bound=45.0, unitaries=True))
    n = sc["n"]
    polarised = draw(st.integers(0, 3)) == 0
    if polarised:
        sign_mode = draw(st.sampled_from(["neg", "neg", "pos", "mixed"]))     # all biases negative: every unnormalised amplitude but one is tiny
        sc["am"]["b"] = [{"neg": -1.0, "pos": 1.0}.get(sign_mode, draw(st.sampled_from([-1.0, 1.0]))) * draw(st.floats(12.0, 25.0, allow_nan=False, width=64)) for _ in range(n)]    # strongly polarised state
        if draw(st.booleans()):
            # ... and nothing that compensates the visible biases: small weights and hidden biases, so the unnormalised amplitudes themselves are tiny
            shrink = lambda x: [shrink(y) for y in x] if isinstance(x, list) else x / (1.0 + abs(x))
            sc["am"]["W"], sc["am"]["c"] = shrink(sc["am"]["W"]), shrink(sc["am"]["c"])
        sc["polarised"] = True
    interesting = draw(st.integers(0, 2)) > 0   # construct (not filter) the class the rule calls non-trivial
    if interesting:
        pbs = draw(st.integers(2, 4))
        N = min(9, draw(st.integers(1, 2)) * pbs + draw(st.integers(1, pbs - 1)))
        nbs = draw(st.sampled_from([x for x in range(1, 6) if x != pbs]))
        k = draw(st.integers(1, 3))
    else:
        N = draw(st.integers(1, 9))
        pbs, nbs, k = draw(st.integers(1, 5)), draw(st.one_of(st.none(), st.integers(1, 5))), draw(st.integers(0, 3))
    U01 = st.floats(0, 1, exclude_max=True, allow_nan=False, width=64)
    allb = gen.basis_strings(n, "XYZ" + "".join(sorted(k for k in (sc.get("unitaries") or {}) if k not in "XYZ")))     # user letters may appear in measurement bases
    rows = []
    all_ref = t != "positive" and draw(st.integers(0, 9)) == 0      # a complex / mixed state trained on reference-basis data only
    for i in range(N):
        b = "Z" * n if (t == "positive" or i == 0 or all_ref) else draw(st.sampled_from(allb))
        if polarised and t != "positive" and n >= 2 and i == 1:
            j = draw(st.integers(0, n - 1))
            b = "Z" * j + draw(st.sampled_from("XY")) + "Z" * (n - 1 - j)       # exactly one rotated site: the other sites keep their (tiny) weights
        rows.append({"basis": b, "u": draw(U01)})
        if (polarised and t != "positive" and n >= 2 and i == 1) or draw(st.integers(0, 11)) == 0 or (polarised and draw(st.integers(0, 3)) > 0):
            rows[-1]["rare"] = True        # the least likely outcome in that basis (data need not be typical of the model)
    if draw(st.integers(0, 19)) == 0:
        nbs = draw(st.sampled_from([129, 150, 200, 300]))      # many negative-phase chains (drawn with replacement from the data)
    long_run = draw(st.integers(0, 24)) == 0
    if long_run:
        rows, pbs = rows[:3], 2           # time axis: a run of more than 32 epochs (two steps per epoch on three rows), small learning rate
    case = {"state": sc, "rows": rows, "pbs": pbs, "nbs": nbs,
            "k": k, "lr": draw(st.floats(1e-3, 1.0, allow_nan=False, width=64)), "epochs": draw(st.integers(1, 3)),
            "gamma": draw(st.one_of(st.none(), st.floats(0.1, 0.9, allow_nan=False, width=64))), "torch_seed": draw(st.integers(0, 2 ** 31 - 1)),
            "sched_kind": draw(st.sampled_from(["step1", "step1", "exp", "step2"])),
            "aborted_first": draw(st.sampled_from([None, None, None, "on_batch_end", "on_epoch_end"])),
            "se": draw(st.sampled_from([1, 1, 0, 2, 3, 5])),
            # staged training: a second fit() on the same model with another learning rate, re-using the caller's optimizer_args dict
            "stage2_lr": draw(st.one_of(st.none(), st.floats(1e-3, 1.0, allow_nan=False, width=64))),
            "opt_args": draw(st.sampled_from(["none", "empty_dict", "momentum0", "momentum", "wd", "momentum_wd"])),
            "stage3_lr": draw(st.one_of(st.none(), st.none(), st.floats(1e-3, 1.0, allow_nan=False, width=64))),
            "stage2_same_lr": draw(st.booleans()), "reinit_between": draw(st.integers(0, 2)) == 0}
    if long_run:
        case.update(epochs=draw(st.integers(33, 35)), lr=min(case["lr"], 0.02), stage2_lr=None, gamma=(case["gamma"] if case["gamma"] is None else max(case["gamma"], 0.9)))
    return case


NAMES = {"weights": "W", "weights_W": "W", "weights_U": "U", "visible_bias": "b", "hidden_bias": "c", "aux_bias": "d"}


def snapshot_case(sc, snap):
    """state-case dict holding the snapshot parameters (for the reference model)."""
    out = {k: v for k, v in sc.items() if k not in ("am", "ph")}
    out["am"] = {NAMES[k]: v.tolist() for k, v in snap["rbm_am"].items()}
    if "rbm_ph" in snap:
        out["ph"] = {NAMES[k]: v.tolist() for k, v in snap["rbm_ph"].items()}
    return out


def energy_grad_mean(sc_t, vk):
    am = R.with_grad(R.net_from_case(sc_t["am"]))
    E = -R.log_prob_visible(am, vk.double())
    loss = E.mean()
    keys = list(am.keys())
    gs = torch.autograd.grad(loss, [am[k] for k in keys], allow_unused=True)
    return {k: (g if g is not None else torch.zeros_like(am[k])) for k, g in zip(keys, gs)}


def check(case):
    import qucumber
    sc = case["state"]
    t, n = sc["type"], sc["n"]
    state = gen.build_state(sc)
    rows, probs = born_rows(case, with_probs=True)
    if min(probs) < MIN_ROW_PROB:
        return {"nontrivial": False, "excluded": 1, "labels": ["excluded:ill-conditioned-row"]}
    N = len(rows)
    data = R.rows_from_indices([k for _, k in rows], n)
    bases = np.array([list(b) for b, _ in rows]).reshape(N, n)
    log = {"steps": [], "batches": [], "vk": [], "epochs": []}
    nets = state.networks

    def snap():
        return {net: {pn: p.data.clone() for pn, p in getattr(state, net).named_parameters()} for net in nets}

    class RecSGD(torch.optim.SGD):
        def step(self, closure=None):
            before = snap()
            grads = {net: {pn: (p.grad.clone() if p.grad is not None else None) for pn, p in getattr(state, net).named_parameters()} for net in nets}
            lr = self.param_groups[0]["lr"]
            r = super().step(closure)
            log["steps"].append(dict(before=before, grads=grads, lr=lr, after=snap(), epoch=len(log["epochs"])))
            return r

    orig_cbg = state.compute_batch_gradients

    def cbg(k, samples_batch, neg_batch, *a, **kw):
        bb = a[0] if a else kw.get("bases_batch")
        log["batches"].append(dict(k=k, pos=samples_batch.clone(), neg=neg_batch.clone(), bases=None if bb is None else np.array(bb)))
        return orig_cbg(k, samples_batch, neg_batch, *a, **kw)

    state.compute_batch_gradients = cbg
    orig_gs = state.rbm_am.gibbs_steps

    def gs(k, initial_state, overwrite=False):
        r = orig_gs(k, initial_state, overwrite=overwrite)
        log["vk"].append(dict(k=k, start=initial_state.clone(), vk=r.clone()))
        return r

    state.rbm_am.gibbs_steps = gs
    from qucumber.callbacks import LambdaCallback
    cb = LambdaCallback(on_epoch_start=lambda s, e: log["epochs"].append(e))
    guard, diverged = gen.divergence_guard()
    qucumber.set_random_seed(case["torch_seed"], cpu=True, gpu=False, quiet=True)
    se = case.get("se", 1)       # starting_epoch: `epochs` is the index of the last epoch, so se + epochs - 1 keeps the epoch count
    kw = dict(epochs=se + case["epochs"] - 1, starting_epoch=se, pos_batch_size=case["pbs"], neg_batch_size=case["nbs"], k=case["k"], lr=case["lr"],
              optimizer=RecSGD, callbacks=[cb, guard])
    if case["torch_seed"] % 4 == 0 and n <= 4 and case["epochs"] <= 4:
        # re-entrant use: a further callback makes the public read-only calls of a monitoring script (normalisation, psi / rho, the three gradient
        # functions, NLL, a save to memory) on the trained state from inside every hook; the update rule must be unaffected
        # (no sampling of the trained state - this check records its chains -, but a one-epoch fit() of ANOTHER state is part of it)
        kw["callbacks"] = [gen.busy_callback(rng=False, other=True), cb, guard] if case["torch_seed"] % 8 == 0 else [cb, guard, gen.busy_callback(rng=False, other=True)]
    if case["gamma"] is not None:
        sk = case.get("sched_kind", "step1")
        if sk == "exp":
            kw.update(scheduler=torch.optim.lr_scheduler.ExponentialLR, scheduler_args={"gamma": case["gamma"]})
        else:
            kw.update(scheduler=torch.optim.lr_scheduler.StepLR, scheduler_args={"step_size": 2 if sk == "step2" else 1, "gamma": case["gamma"]})
    if t != "positive":
        kw["input_bases"] = bases
    oargs = {"none": None, "empty_dict": {}, "momentum0": {"momentum": 0.0}, "momentum": {"momentum": 0.9}, "wd": {"weight_decay": 0.05},
             "momentum_wd": {"momentum": 0.5, "weight_decay": 0.01}}[case.get("opt_args", "none")]
    mom, wd = (oargs or {}).get("momentum", 0.0), (oargs or {}).get("weight_decay", 0.0)
    oargs_keep = None if oargs is None else dict(oargs)
    if oargs is not None:
        kw["optimizer_args"] = oargs
    if case.get("aborted_first"):
        # an earlier run on the same state was aborted by an exception from a user callback after its first optimizer step; the caller catches it,
        # writes the parameters again and trains: the first step of the new run must be exact (nothing of the failed run is left in the gradients)
        gen.abort_a_fit(state, data, bases if t != "positive" else None, hook=case["aborted_first"], pos_batch_size=case["pbs"], lr=0.5)
        gen.set_net(state.rbm_am, sc["am"])
        if sc.get("ph"):
            gen.set_net(state.rbm_ph, sc["ph"])
        for k_ in log:
            del log[k_][:]
    state.fit(data, **kw)
    lr_of_step = [case["lr"]] * len(log["steps"])
    stage1_steps = len(log["steps"])
    stage_starts = {0, stage1_steps}
    stage1_epochs = len(log["epochs"])
    if case.get("stage2_lr") is not None and case.get("stage2_same_lr"):
        case = dict(case, stage2_lr=case["lr"])          # an identical optimizer configuration in the second fit()
    if case.get("stage2_lr") is not None and not diverged[0]:
        if case.get("reinit_between"):
            state.reinitialize_parameters()              # new parameter objects between two fit() calls
            gen.set_net(state.rbm_am, sc["am"])
            if sc.get("ph"):
                gen.set_net(state.rbm_ph, sc["ph"])
        kw2 = dict(kw, lr=case["stage2_lr"], epochs=1, starting_epoch=1)
        state.fit(data, **kw2)
        lr_of_step += [case["stage2_lr"]] * (len(log["steps"]) - stage1_steps)
        if case.get("stage3_lr") is not None and not diverged[0]:
            n2 = len(log["steps"])
            stage_starts.add(n2)
            state.fit(data, **dict(kw, lr=case["stage3_lr"], epochs=1, starting_epoch=1))      # third fit() call on the same objects
            lr_of_step += [case["stage3_lr"]] * (len(log["steps"]) - n2)
    if oargs is not None:
        require(oargs == oargs_keep, "optimizer_args-mutated", f"fit() modified the caller's optimizer_args dict: {oargs} (was {oargs_keep})")

    if diverged[0]:
        return {"nontrivial": False, "excluded": 1, "labels": ["diverged"]}
    nb = -(-N // case["pbs"])
    steps = log["steps"]
    total_epochs = case["epochs"] + (1 if case.get("stage2_lr") is not None else 0) + (1 if (case.get("stage2_lr") is not None and case.get("stage3_lr") is not None) else 0)
    require(len(steps) == nb * total_epochs, "step-count", f"{len(steps)} optimizer steps for {total_epochs} epoch(s) of {nb} batch(es): exactly one step per batch expected")
    # every positive batch row is a row of the training data, each epoch uses each row once (C07's statement; asserted here because
    # the reference gradient below is computed from the batch the library actually used)
    from collections import Counter
    want_rows = Counter(tuple(int(x) for x in r) for r in data.tolist())
    for ep_i in range(total_epochs):
        got_rows = Counter(tuple(int(x) for x in r) for bt_ in log["batches"][ep_i * nb:(ep_i + 1) * nb] for r in bt_["pos"].tolist())
        require(got_rows == want_rows, "positive-batches-not-the-data", f"epoch #{ep_i + 1}: the positive batches are not the training rows")
    require(len(log["batches"]) == len(steps) and len(log["vk"]) == len(steps), "call-count", "one gradient computation and one Gibbs chain per step expected")
    nbs = case["nbs"] or case["pbs"]
    followed = 0
    excluded = 0
    rotated_seen = False
    for ti, (stp, bt, ch) in enumerate(zip(steps, log["batches"], log["vk"])):
        ep = stp["epoch"]
        stage2 = ti >= stage1_steps
        ep_in_stage = 1 if stage2 else ep        # stages 2 and 3 are single-epoch fits
        n_decays = (ep_in_stage - 1) // 2 if case.get("sched_kind") == "step2" else (ep_in_stage - 1)
        want_lr = lr_of_step[ti] * (case["gamma"] ** n_decays if case["gamma"] is not None else 1.0)
        require(abs(stp["lr"] - want_lr) <= 1e-12 * want_lr, "lr-schedule",
                f"step {ti} (epoch #{ep}): learning rate {stp['lr']} but expected {want_lr} (scheduler must advance exactly once per epoch)")
        require(bt["k"] == case["k"] and ch["k"] == case["k"], "k", "wrong number of Gibbs steps requested")
        vk = ch["vk"]
        require(vk.shape == bt["neg"].shape and bool(torch.all((vk == 0) | (vk == 1))), "vk-shape", "chain end state is not a 0/1 array with one row per negative-batch row")
        require(torch.equal(ch["start"], bt["neg"]), "chain-start", "Gibbs chains were not started from the negative batch")
        if ti > 0 and not (case.get("reinit_between") and ti == stage1_steps):
            prev = steps[ti - 1]["after"]
            require(all(torch.equal(prev[net][pn], stp["before"][net][pn]) for net in nets for pn in prev[net]), "params-changed-between-steps",
                    "parameters changed outside optimizer.step()")
        # SGD: theta' = theta - lr * grad, exactly once (with the documented momentum / weight-decay recursion when optimizer_args asks for it;
        # every fit() builds a fresh optimizer, so momentum buffers start empty at each stage)
        if ti in stage_starts:
            mbuf = {}
        for net in nets:
            for pn, g in stp["grads"][net].items():
                require(g is not None, "grad-missing", f"{net}.{pn} received no gradient")
                d_ = g + wd * stp["before"][net][pn]
                if mom:
                    mbuf[(net, pn)] = d_.clone() if (net, pn) not in mbuf else mom * mbuf[(net, pn)] + d_
                    d_ = mbuf[(net, pn)]
                exp = stp["before"][net][pn] - stp["lr"] * d_
                require(bool(torch.all((stp["after"][net][pn] - exp).abs() <= 1e-12 * (stp["before"][net][pn].abs() + stp["lr"] * d_.abs()) + 1e-300)), "sgd-update",
                        f"{net}.{pn} did not move by exactly -lr*grad at step {ti} (optimizer_args={oargs})")
        # reference gradient at the snapshot parameters
        sc_t = snapshot_case(sc, stp["before"])
        brows = []
        for r_i in range(bt["pos"].shape[0]):
            bstr = "Z" * n if bt["bases"] is None else "".join(bt["bases"][r_i])
            brows.append((bstr, R.row_to_index(bt["pos"][r_i].tolist())))
            rotated_seen = rotated_seen or set(bstr) != {"Z"}
        pos = ref_grads(sc_t, brows, with_Z=False, mean=True)
        neg = energy_grad_mean(sc_t, vk)
        mx = max(float(v.abs().max()) for d in pos.values() for v in d.values() if v.numel() > 0)
        if not np.isfinite(mx) or mx > 1e6:
            excluded += len(steps) - ti
            break
        for net in nets:
            key = "am" if net == "rbm_am" else "ph"
            for pn, g in stp["grads"][net].items():
                want = pos[key][NAMES[pn]].reshape(g.shape)
                if net == "rbm_am":
                    want = want - neg[NAMES[pn]].reshape(g.shape)
                tol = 1e-6 * (1 + (float(want.abs().max()) if want.numel() else 0.0))
                require(bool(torch.all((g.double() - want).abs() <= tol)), f"cd-gradient:{net}.{pn}",
                        f"step {ti}: gradient handed to the optimizer for {net}.{pn} is not positive phase"
                        + (" minus the mean energy gradient of the k-step chain states" if net == "rbm_am" else " only"),
                        got=g.tolist(), ref=want.tolist(), neg_rows=int(vk.shape[0]), pos_rows=int(bt["pos"].shape[0]))
        if ti == 0:
            # precision tier (first step: the rows' conditioning was verified at these parameters): reference in product form, ~2e-10 of the scale
            with R.library_precision():
                pos_p, neg_p = ref_grads(sc_t, brows, with_Z=False, mean=True), energy_grad_mean(sc_t, vk)
            for net in nets:
                key = "am" if net == "rbm_am" else "ph"
                for pn, g in stp["grads"][net].items():
                    want = pos_p[key][NAMES[pn]].reshape(g.shape)
                    if net == "rbm_am":
                        want = want - neg_p[NAMES[pn]].reshape(g.shape)
                    prec_ = 2e-10 + 50 * 2.2e-16 / min(probs)
                    if t == "density" and gen.max_preactivation(sc) > 18.0:
                        prec_ = max(prec_, 1e-8)          # see c03.py
                    tol = prec_ * (1 + (float(want.abs().max()) if want.numel() else 0.0))
                    require(bool(torch.all((g.double() - want).abs() <= tol)), f"precision:cd-gradient:{net}.{pn}",
                            f"step 0: the gradient handed to the optimizer for {net}.{pn} is not accurate to double precision (2e-10 of its scale)",
                            worst=float((g.double() - want).abs().max()) if want.numel() else 0.0, scale=float(want.abs().max()) if want.numel() else 0.0)
        followed += 1
    tail = N % case["pbs"] != 0
    nt = (nbs != case["pbs"]) and tail and case["k"] >= 1 and followed >= 2 and (t == "positive" or rotated_seen) and gen.all_biases_nonzero(sc)
    return {"nontrivial": nt, "excluded": excluded,
            "labels": [f"type={t}"] + (["neg!=pos"] if nbs != case["pbs"] else []) + (["tail_batch"] if tail else []) + ([f"k={case['k']}"]) +
                      (["scheduler=" + case.get("sched_kind", "step1")] if case["gamma"] is not None else []) + (["polarised"] if sc.get("polarised") else []) + ([f"starting_epoch={se}"] if se != 1 else []) + (["multi_epoch"] if case["epochs"] > 1 else []) + (["two_stage"] if case.get("stage2_lr") is not None else []) + ["opt_args=" + case.get("opt_args", "none")] +
                      (["busy_callback"] if (case["torch_seed"] % 4 == 0 and n <= 4 and case["epochs"] <= 4) else []) + (["more_than_32_epochs"] if case["epochs"] > 32 else [])}


SUBCHECKS = [Sub("cd_update", check, strategy=lambda tier: runs(tier), quick=320, thorough=6000)]
