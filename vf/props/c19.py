"""C19 - Basis-state indexing and data loading are mutually consistent."""
import itertools
import os
import tempfile

import numpy as np
import math
import torch
from hypothesis import strategies as st

from vf import gen, refmodel as R
from vf.common import Sub, require, expect_raises, PropertyViolation

PROPERTY = "C19"
RULE = ("(index) enumeration: for n 1..10 EVERY row k of generate_hilbert_space(n) is compared with subspace_vector(k, n), my own "
        "big-endian expansion [(k >> (n-1-j)) & 1], itertools.product and _convert_basis_element_to_index; n 11..14 (thorough ..18) "
        "full space vs the expansion on all rows + sampled subspace_vector calls; size > max_size refused, size = max_size accepted "
        "(shape + two rows). (positions) generated site-tagged product states (distinct amplitude/phase per site, n 2..7): "
        "position k of psi(space), rho(space,space), rotate_psi, rotate_rho and of explicit psi/rho gathers must be the state with "
        "site 0 = most significant bit = leftmost Kronecker factor. (files) generated sample / target / bases / unique-bases files "
        "(N 2..30, n 2..6, drawn alphabet, float64 targets written with %.18e) loaded with load_data / load_data_DM and compared "
        "with an independent str.split parse; extract_refbasis_samples vs my own row filter for any pattern incl. none/all. "
        "Non-trivial = (index) n >= 3, (positions) a non-palindromic tag, (files) >= 2 distinct bases incl. an all-Z row.")
RULE_EXT = ('Extended as built: numpy integer / keyword argument forms, returned spaces edited in place three times (no shared cache), default max_size of a 21-qubit model, files rewritten at the same paths, tiny entries, D in {2,4,8,16}.')
RULE_EXT += ' Round 10 (after an exception / long time axis): sub-check history: 3-30 requests on one object (spaces of size 1-9 in sweeps, single vectors of size 1-30, refused sizes (limit+1..limit+7) followed by single vectors of that size, defaults of registers beyond the limit - for registers of 6 and 7 sites a state subclass whose max_size property is 5 is used, so that a refusal that is not given costs a 128-row space and not gigabytes).'
RULE = RULE + " " + RULE_EXT
ASSUMPTIONS = ["targets compared with the written number rounded to float32, to 0.02 float32 ulp (documented single precision)",
               "single-row / single-column files are not generated (np.loadtxt squeezes them; the property speaks of contents)"]


def expansion(k, n):
    return [(k >> (n - 1 - j)) & 1 for j in range(n)]


def check_index(c):
    from qucumber.nn_states import ComplexWaveFunction, DensityMatrix, PositiveWaveFunction
    from qucumber.utils.unitaries import _convert_basis_element_to_index
    n = c["n"]
    state = {"positive": lambda: PositiveWaveFunction(2, 1, gpu=False), "complex": lambda: ComplexWaveFunction(2, 1, gpu=False),
             "density": lambda: DensityMatrix(2, 1, 1, gpu=False)}[c["type"]]()
    if c.get("limit"):
        ms = state.max_size
        expect_raises(ValueError, lambda: state.generate_hilbert_space(ms + c["limit"]), "max_size:not-refused", f"generate_hilbert_space({ms + c['limit']}) beyond max_size {ms}")
        expect_raises(ValueError, lambda: state.generate_hilbert_space(size=ms + c["limit"]), "max_size:not-refused", "generate_hilbert_space(size=...) beyond max_size (keyword form)")
        from qucumber.nn_states import PositiveWaveFunction as _P
        big = _P(ms + c["limit"], 1, gpu=False)          # a model whose own register is beyond the limit: the DEFAULT size must be refused too
        expect_raises(ValueError, lambda: big.generate_hilbert_space(), "max_size:default-size-not-refused", f"generate_hilbert_space() of a {ms + c['limit']}-qubit model (size defaulted)")
        expect_raises(ValueError, lambda: big.generate_hilbert_space(None), "max_size:default-size-not-refused", "generate_hilbert_space(None) of a model beyond the limit")
        if c.get("at_limit"):
            sp = state.generate_hilbert_space(ms)
            require(tuple(sp.shape) == (2 ** ms, ms), "max_size:refused-at-limit", f"generate_hilbert_space(max_size) has shape {tuple(sp.shape)}")
            require(sp[1].tolist() == expansion(1, ms) and sp[-2].tolist() == expansion(2 ** ms - 2, ms), "space-row", "rows at max_size are not the big-endian expansion")
        return {"labels": ["limit"]}
    space = state.generate_hilbert_space(n)
    D = 2 ** n
    if n <= 12:
        require(torch.equal(state.generate_hilbert_space(np.int64(n)), space) and torch.equal(state.generate_hilbert_space(size=n), space), "space-argform",
                "generate_hilbert_space(size) depends on how the integer is passed (numpy integer / keyword)")
        kk = (5 * n + 3) % D
        require(state.subspace_vector(np.int64(kk), np.int64(n)).tolist() == expansion(kk, n) and state.subspace_vector(num=kk, size=n).tolist() == expansion(kk, n),
                "subspace_vector-argform", "subspace_vector depends on how the integers are passed (numpy integer / keyword)")
    require(tuple(space.shape) == (D, n) and space.dtype == torch.double, "space-shape", f"generate_hilbert_space({n}) has shape {tuple(space.shape)} / dtype {space.dtype}")
    ks = torch.arange(D)
    want = torch.stack([(ks >> (n - 1 - j)) & 1 for j in range(n)], dim=1).double()
    bad = (space != want).any(dim=1)
    if bool(bad.any()):
        k = int(torch.nonzero(bad)[0])
        require(False, "space-row", f"row {k} of generate_hilbert_space({n}) is {space[k].tolist()}, the big-endian expansion of {k} is {expansion(k, n)}")
    idx = _convert_basis_element_to_index(space)
    require(torch.equal(idx.long(), ks), "index-roundtrip", f"_convert_basis_element_to_index(row k) != k for n={n}", first_bad=int(torch.nonzero(idx.long() != ks)[0]) if bool((idx.long() != ks).any()) else None)
    rows = range(D) if n <= 10 else c["rows"]
    if n <= 10:
        prod = list(itertools.product([0, 1], repeat=n))
    for k in rows:
        k = k % D
        v = state.subspace_vector(k, n)
        require(v.tolist() == expansion(k, n), "subspace_vector", f"subspace_vector({k}, {n}) = {v.tolist()} != big-endian expansion {expansion(k, n)}")
        require(int(_convert_basis_element_to_index(v)) == k, "index-roundtrip", f"index of subspace_vector({k}) is {int(_convert_basis_element_to_index(v))}")
        if n <= 10:
            require(list(prod[k]) == space[k].long().tolist(), "space-row", f"row {k} differs from itertools.product order")
    if n <= 8:
        # a caller may use the returned space destructively (e.g. as overwritten chain start states); later calls - from this or
        # another model - must still return the enumeration
        space.mul_(2).sub_(1)
        again = state.generate_hilbert_space(n)
        require(torch.equal(again, want), "space-shared-between-calls", f"generate_hilbert_space({n}) returned a tensor affected by an in-place change a caller made to an earlier result")
        again.mul_(2).sub_(1)        # ... the caller also edits the second result in place (e.g. as overwritten chain states)
        third = state.generate_hilbert_space(n)
        require(torch.equal(third, want), "space-shared-between-calls", f"the third generate_hilbert_space({n}) is affected by an in-place change made to the second result")
        third.add_(5)
        require(torch.equal(state.generate_hilbert_space(n), want), "space-shared-between-calls", f"the fourth generate_hilbert_space({n}) is affected by an in-place change made to the third result")
        from qucumber.nn_states import PositiveWaveFunction as _P
        require(torch.equal(_P(2, 1, gpu=False).generate_hilbert_space(n), want), "space-shared-between-calls", "another model's generate_hilbert_space is affected by a caller's in-place change")
    if n == 2:
        # defaults: size=None means the model's own num_visible
        require(torch.equal(state.generate_hilbert_space(), state.generate_hilbert_space(2)) and state.subspace_vector(2).tolist() == [1, 0], "defaults", "size default is not num_visible")
        # lifecycle: the defaults do not depend on what was enumerated before (another size asked for explicitly, a rotation that enumerates a sub-space)
        state.generate_hilbert_space(3 if n != 3 else 4)
        require(state.subspace_vector(2).tolist() == [1, 0] and tuple(state.generate_hilbert_space().shape) == (4, 2), "defaults:after-other-size",
                "after an explicit generate_hilbert_space(size) the default size of subspace_vector / generate_hilbert_space is no longer num_visible")
        # sizes asked for in DESCENDING order (a larger register first, by this and by another state object), then the smaller ones again
        from qucumber.nn_states import PositiveWaveFunction as _P2
        other_ = _P2(5, 1, gpu=False)
        other_.subspace_vector(19, 5); state.subspace_vector((2 ** n) - 1, n)
        for m_ in range(min(n, 6), 0, -1):
            for k_ in (0, 1, (2 ** m_) - 1, (2 ** m_) // 2):
                require(state.subspace_vector(k_, m_).tolist() == expansion(k_, m_) and other_.subspace_vector(k_ % 32, 5).tolist() == expansion(k_ % 32, 5), "subspace_vector:after-larger-size",
                        f"subspace_vector({k_}, {m_}) asked for after a larger size is not the big-endian expansion")
    return {"nontrivial": n >= 3, "labels": [f"n={n}", "type=" + c["type"]]}


@st.composite
def index_histories(draw, tier):
    """histories of enumeration requests on ONE state object: many distinct sizes (more than any small cache would hold), repeats of
    earlier sizes, refused sizes (caught) followed by single-vector requests of that size, defaults of a register beyond the limit"""
    own = draw(st.sampled_from([2, 3, 5, 6, 7]))          # 6 and 7: a state class whose size limit is 5 (the limit is a property a subclass may lower), so that a
                                                           # refusal that is NOT given costs a 2^7-row space and not gigabytes
    ops = []
    for _ in range(draw(st.integers(3, 30))):
        k = draw(st.sampled_from(["space", "space", "vector", "vector", "refused", "default_space", "default_vector", "sweep"]))
        if k == "space":
            ops.append(["space", draw(st.integers(1, 9))])
        elif k == "vector":
            m = draw(st.integers(1, 30))
            ops.append(["vector", draw(st.integers(0, 2 ** m - 1)), m])
        elif k == "refused":
            ops.append(["refused", draw(st.integers(1, 7))])          # size = the state's limit + this
        elif k == "default_vector":
            ops.append(["default_vector", draw(st.integers(0, 2 ** own - 1))])
        elif k == "sweep":
            lo, hi = sorted([draw(st.integers(1, 9)), draw(st.integers(1, 9))])
            seq = list(range(lo, hi + 1))
            for m in (seq if draw(st.booleans()) else seq[::-1]):
                ops.append(["space", m])
        else:
            ops.append([k])
    return {"own": own, "type": draw(st.sampled_from(["positive", "complex", "density"])), "ops": ops}


def check_history(c):
    from qucumber.nn_states import ComplexWaveFunction, DensityMatrix, PositiveWaveFunction
    own = c["own"]
    base_cls = {"positive": PositiveWaveFunction, "complex": ComplexWaveFunction, "density": DensityMatrix}[c["type"]]
    if own >= 6:
        class SmallLimit(base_cls):
            @property
            def max_size(self):
                return 5
        base_cls = SmallLimit
    state = base_cls(own, 1, gpu=False) if c["type"] != "density" else base_cls(own, 1, 1, gpu=False)
    ms = state.max_size
    sizes, refused = set(), 0
    for i, op in enumerate(c["ops"]):
        what = f"step {i} {op} of a history of enumeration requests on one object"
        if (op[0] == "space" and op[1] <= ms) or (op[0] == "default_space" and own <= ms):
            m = op[1] if op[0] == "space" else own
            sp = state.generate_hilbert_space(m) if op[0] == "space" else state.generate_hilbert_space()
            ks = torch.arange(2 ** m)
            want = torch.stack([(ks >> (m - 1 - j)) & 1 for j in range(m)], dim=1).double()
            require(sp.shape == want.shape and torch.equal(sp, want), "history:space-row", f"{what}: the returned space is not the big-endian enumeration of size {m}")
            sizes.add(m)
        elif op[0] in ("refused", "default_space", "space"):
            m = (ms + op[1] if op[0] == "refused" else op[1]) if op[0] != "default_space" else own
            if op[0] == "space":
                op = ["refused", m]
            if op[0] == "refused":
                expect_raises(ValueError, lambda: state.generate_hilbert_space(m), "history:max_size:not-refused", f"{what}: size {m} beyond max_size {ms}")
            else:
                expect_raises(ValueError, lambda: state.generate_hilbert_space(), "history:max_size:not-refused", f"{what}: default size {m} beyond max_size {ms}")
            refused += 1
            # after the refusal (caught): single basis vectors of that size are still available and right
            for k_ in (1, 2 ** m - 2, (2 ** m) // 3):
                v = state.subspace_vector(k_, m)
                require(v.tolist() == expansion(k_, m), "history:subspace_vector:after-refusal", f"{what}: subspace_vector({k_}, {m}) after the refused enumeration = {v.tolist()}")
        elif op[0] == "vector":
            v = state.subspace_vector(op[1], op[2])
            require(v.tolist() == expansion(op[1], op[2]), "history:subspace_vector", f"{what}: got {v.tolist()}, the big-endian expansion is {expansion(op[1], op[2])}")
        elif op[0] == "default_vector":
            v = state.subspace_vector(op[1])
            require(v.tolist() == expansion(op[1], own), "history:subspace_vector:default-size", f"{what}: got {v.tolist()}, the expansion over the model's {own} sites is {expansion(op[1], own)}")
    return {"nontrivial": len(sizes) >= 7 or refused > 0, "labels": [f"distinct_sizes={min(len(sizes), 9)}", f"own={own}"] + (["refusal"] if refused else [])}


def index_cases(tier):
    out = []
    hi = 14 if tier == "quick" else 18
    for n in range(1, hi + 1):
        for t in (["positive", "complex", "density"] if n <= 6 else ["positive"]):
            c = {"n": n, "type": t}
            if n > 10:
                D = 2 ** n
                c["rows"] = [0, 1, 2, D - 1, D - 2, D // 2, D // 2 - 1, D // 3, (D * 5) // 7, 12345 % D, 54321 % D, 0b1011 % D, (1 << (n - 1)) + 1]
            out.append(c)
    for t in ("positive", "complex", "density"):
        out.append({"n": 0, "type": t, "limit": 1})
        out.append({"n": 0, "type": t, "limit": 5})
    out.append({"n": 0, "type": "positive", "limit": 1, "at_limit": True})   # 2^20 x 20 doubles (~170 MB), one shard
    return out


# ------------------------------------------------------------------ positions in psi / rho arrays
@st.composite
def tagged(draw, tier):
    n = draw(st.integers(2, 7))
    fl = st.floats(-1.5, 1.5, allow_nan=False, width=64)
    c = {"n": n, "b": draw(st.lists(fl, min_size=n, max_size=n, unique=True)), "bp": draw(st.lists(fl, min_size=n, max_size=n, unique=True)),
         "site": draw(st.integers(0, n - 1)), "letter": draw(st.sampled_from(["X", "Y"])), "idx": draw(gen.index_list(n, 1, 5)),
         "dens": n <= 5 and draw(st.booleans())}
    return c


def check_positions(c):
    from qucumber.nn_states import ComplexWaveFunction, DensityMatrix
    from qucumber.utils import unitaries as UN
    n = c["n"]
    D = 2 ** n
    b = torch.tensor(c["b"], dtype=R.F64)
    bp = torch.tensor(c["bp"], dtype=R.F64)
    # product state built factor by factor, site 0 leftmost:  psi = (x) _j [1, exp((b_j + i bp_j)/2)]
    fac = [torch.stack([torch.ones((), dtype=R.C128), torch.exp(0.5 * (b[j] + 1j * bp[j]))]) for j in range(n)]
    psi_want = fac[0]
    for j in range(1, n):
        psi_want = torch.kron(psi_want, fac[j])
    basis = "".join(c["letter"] if j == c["site"] else "Z" for j in range(n))
    ud = R.default_unitaries()
    U = R.kron_U(ud, basis)
    idx = c["idx"]
    states = R.rows_from_indices(idx, n)
    if not c["dens"]:
        s = ComplexWaveFunction(n, 1, gpu=False)
        for rbm, bias in ((s.rbm_am, b), (s.rbm_ph, bp)):
            rbm.weights.data.zero_(); rbm.hidden_bias.data.zero_(); rbm.visible_bias.data.copy_(bias)
        space = s.generate_hilbert_space()
        const = 2.0 ** 0.5 * np.exp(0.5j * np.log(2.0))      # one hidden unit with zero input: softplus(0) = log 2 in both nets
        psi = R.lib_to_c(s.psi(space)) / const
        require(bool(torch.all((psi - psi_want).abs() <= 1e-9 * psi_want.abs())), "position:psi", "position k of psi(space) is not the state whose bits are the big-endian expansion of k (site 0 leftmost factor)")
        rp = R.lib_to_c(UN.rotate_psi(s, basis, space)) / const
        require(bool(torch.all((rp - U @ psi_want).abs() <= 1e-9 * psi_want.abs().max())), "position:rotate_psi", f"rotate_psi({basis}) rotates the wrong site / orders entries differently")
        ex = R.c_to_lib(psi_want)
        g = R.lib_to_c(UN.rotate_psi_inner_prod(s, basis, states.clone(), psi=ex))
        require(bool(torch.all((g - (U @ psi_want)[idx]).abs() <= 1e-9 * psi_want.abs().max())), "position:explicit-psi-gather", "explicit psi entries are gathered at the wrong positions")
        g2 = R.lib_to_c(UN.rotate_psi(s, basis, space, psi=ex))
        require(bool(torch.all((g2 - U @ psi_want).abs() <= 1e-9 * psi_want.abs().max())), "position:explicit-psi", "rotate_psi of an explicit psi orders entries differently")
    else:
        s = DensityMatrix(n, 1, 1, gpu=False)
        for rbm, bias in ((s.rbm_am, b), (s.rbm_ph, bp)):
            rbm.weights_W.data.zero_(); rbm.weights_U.data.zero_(); rbm.hidden_bias.data.zero_(); rbm.aux_bias.data.zero_(); rbm.visible_bias.data.copy_(bias)
        space = s.generate_hilbert_space()
        rho = R.lib_to_c(s.rho(space, space))
        rho_want = psi_want[:, None] * psi_want.conj()[None, :]
        rho = rho / rho[0, 0].real * rho_want[0, 0].real
        require(bool(torch.all((rho - rho_want).abs() <= 1e-9 * rho_want.abs())), "position:rho", "entry (k,l) of rho(space,space) is not the pair of states with big-endian expansions of k and l")
        rr = R.lib_to_c(UN.rotate_rho(s, basis, space, rho=R.c_to_lib(rho_want)))
        want = U @ rho_want @ U.conj().t()
        require(bool(torch.all((rr - want).abs() <= 1e-9 * rho_want.abs().max())), "position:rotate_rho", f"rotate_rho({basis}) rotates the wrong site / orders entries differently")
        pr = UN.rotate_rho_probs(s, basis, states.clone(), rho=R.c_to_lib(rho_want)).double()
        require(bool(torch.all((pr - want.diagonal().real[idx]).abs() <= 1e-9 * rho_want.abs().max())), "position:explicit-rho-gather", "explicit rho entries are gathered at the wrong positions")
    pal = c["site"] != n - 1 - c["site"] and c["b"] != c["b"][::-1]
    return {"nontrivial": pal, "labels": [f"n={n}", "density" if c["dens"] else "complex"]}


# ------------------------------------------------------------------ files
def tiny(vals, mode):
    """value regimes for written targets: every third entry scaled to ~1e-9 / ~1e-20 (representable in float32, must come back unchanged)"""
    if mode == 1:
        return [v * 1e-9 if i % 3 == 0 else v for i, v in enumerate(vals)]
    if mode == 2:
        return [v * 1e-20 if i % 2 == 0 else v for i, v in enumerate(vals)]
    return vals


@st.composite
def files(draw, tier):
    N, n = draw(st.integers(2, 30)), draw(st.integers(2, 6))
    alpha = draw(st.sampled_from(["XYZ", "XYZ", "XYZHQ", "ZX"]))
    pat = draw(st.sampled_from(["mixed", "mixed", "none_Z", "all_Z", "one_global_basis", "global_bases"]))
    one = draw(st.sampled_from("XYXY" if "Y" in alpha else "XX"))
    bases = []
    for i in range(N):
        if pat == "one_global_basis":
            bases.append(one * n)                 # the whole data set measured in ONE non-reference basis (the same letter on every site of every row)
        elif pat == "global_bases":
            bases.append(draw(st.sampled_from([ch for ch in alpha if ch in "XYZ"])) * n)     # every row in a global basis XX.. / YY.. / ZZ..
        elif pat == "all_Z" or (pat == "mixed" and draw(st.integers(0, 2)) == 0):
            bases.append("Z" * n)
        else:
            b = draw(gen.basis_string(n, alpha))
            if pat == "none_Z" and set(b) == {"Z"}:
                b = "X" + b[1:]
            bases.append(b)
    D = draw(st.sampled_from([2, 2, 4, 8, 16]))     # target dimension (1..4 qubits); loading does not relate it to the samples' n
    fl = st.floats(-2, 2, allow_nan=False, width=64)
    return {"N": N, "n": n, "samples": draw(st.lists(st.integers(0, 2 ** n - 1), min_size=N, max_size=N)), "bases": bases,
            "psi": {"re": tiny(draw(st.lists(fl, min_size=D, max_size=D)), draw(st.integers(0, 3))), "im": tiny(draw(st.lists(fl, min_size=D, max_size=D)), draw(st.integers(0, 3)))},
            "mat": {"re": tiny(draw(st.lists(fl, min_size=D * D, max_size=D * D)), draw(st.integers(0, 3))), "im": draw(st.lists(fl, min_size=D * D, max_size=D * D))},
            "which": draw(st.sampled_from(["psi", "dm", "dm_missing_real", "dm_missing_imag", "samples_only"])), "intfmt": draw(st.booleans()),
            "normalised_target": draw(st.booleans())}      # the ordinary case: the written wavefunction has unit norm / the written matrix unit trace


def f32_close(got, want64):
    want32 = np.asarray(want64, dtype=np.float64).astype(np.float32).astype(np.float64)
    ulp = np.spacing(np.abs(want32).astype(np.float32)).astype(np.float64)
    # the loaders read single precision: the value that comes back is the written number rounded to float32 - to a small fraction of a
    # float32 ulp (a renormalisation or any other "harmless" touch-up of the entries moves them by more)
    return np.all(np.abs(np.asarray(got, dtype=np.float64) - want32) <= 0.02 * ulp)


def _second_load(c2, tmp):
    try:
        check_files(c2, tmp)
    except PropertyViolation as v:
        raise PropertyViolation("after-rewrite:" + v.bucket, "after the files were rewritten at the same paths and loaded again: " + v.message, v.detail)


class _Keep:
    """context manager handing out an existing directory (second pass re-uses the first pass's paths)"""
    def __init__(self, d): self.d = d
    def __enter__(self): return self.d
    def __exit__(self, *a): return False


def check_files(c, reuse_dir=None):
    from qucumber.utils import data as D_
    N, n = c["N"], c["n"]
    rows = [expansion(k, n) for k in c["samples"]]
    with (_Keep(reuse_dir) if reuse_dir else tempfile.TemporaryDirectory(prefix="vf_c19_")) as tmp:
        P = lambda name: os.path.join(tmp, name)
        with open(P("samples.txt"), "w") as f:
            for r in rows:
                f.write(" ".join((str(x) if c["intfmt"] else f"{float(x):.1f}") for x in r) + "\n")
        with open(P("bases.txt"), "w") as f:
            for b in c["bases"]:
                f.write(" ".join(b) + "\n")
        uniq = sorted(set(c["bases"]))
        # the file lists the distinct bases in the order the experimenter chose (reference basis first, reversed, as first met in the data ...)
        ko = len(c["bases"]) % 3
        uniq = uniq[::-1] if ko == 0 else (list(dict.fromkeys(c["bases"])) if ko == 1 else (["Z" * n] if "Z" * n in uniq else []) + [b for b in uniq if b != "Z" * n])
        with open(P("all_bases.txt"), "w") as f:
            for b in uniq:
                f.write(b + "\n")
        Dm = len(c["psi"]["re"])
        if c.get("normalised_target"):
            nrm = math.sqrt(sum(a * a + b * b for a, b in zip(c["psi"]["re"], c["psi"]["im"])))
            tr = sum(c["mat"]["re"][i * Dm + i] for i in range(Dm))
            c = dict(c, psi={k: [x / nrm for x in v] for k, v in c["psi"].items()} if nrm > 1e-3 else c["psi"],
                     mat={k: [x / tr for x in v] for k, v in c["mat"].items()} if abs(tr) > 1e-3 else c["mat"])
        with open(P("psi.txt"), "w") as f:
            for a, b in zip(c["psi"]["re"], c["psi"]["im"]):
                f.write(f"{a:.18e} {b:.18e}\n")
        for part in ("re", "im"):
            with open(P(f"mat_{part}.txt"), "w") as f:
                for i in range(Dm):
                    f.write(" ".join(f"{x:.18e}" for x in c["mat"][part][i * Dm:(i + 1) * Dm]) + "\n")
        # independent parse of the same files
        parsed_samples = [[float(tok) for tok in line.split()] for line in open(P("samples.txt")).read().splitlines()]
        parsed_bases = [line.split() for line in open(P("bases.txt")).read().splitlines()]
        parsed_uniq = [line.strip() for line in open(P("all_bases.txt")).read().splitlines()]
        parsed_psi = [[float(tok) for tok in line.split()] for line in open(P("psi.txt")).read().splitlines()]

        def common(res, off):
            require(isinstance(res[0], torch.Tensor) and res[0].dtype == torch.double and res[0].tolist() == parsed_samples, "load:samples", "loaded samples differ from the file's contents")
            tb, ub = res[off], res[off + 1]
            require(isinstance(tb, np.ndarray) and tb.shape == (N, n) and tb.tolist() == parsed_bases, "load:bases", "loaded per-sample bases differ from the file's contents")
            require(isinstance(ub, np.ndarray) and ub.ndim == 1 and ub.tolist() == parsed_uniq, "load:unique-bases", f"loaded unique bases {ub.tolist()} != file {parsed_uniq}")

        which = c["which"]
        if which == "samples_only":
            res = D_.load_data(P("samples.txt"))
            require(len(res) == 1 and res[0].tolist() == parsed_samples, "load:samples", "load_data(samples only) differs from the file")
            res = D_.load_data(P("samples.txt"), tr_bases_path=P("bases.txt"), bases_path=P("all_bases.txt"))
            require(len(res) == 3, "load:length", f"load_data returned {len(res)} items")
            common(res, 1)
        elif which == "psi":
            res = D_.load_data(P("samples.txt"), P("psi.txt"), P("bases.txt"), P("all_bases.txt"))
            require(len(res) == 4, "load:length", f"load_data returned {len(res)} items")
            t = res[1]
            require(isinstance(t, torch.Tensor) and tuple(t.shape) == (2, Dm) and t.dtype == torch.double, "load:psi-shape", f"target psi has shape {tuple(t.shape)}")
            require(f32_close(t[0].numpy(), [r[0] for r in parsed_psi]) and f32_close(t[1].numpy(), [r[1] for r in parsed_psi]), "load:psi-values",
                    "target psi is not [real column; imaginary column] of the file (to single precision)")
            common(res, 2)
        elif which == "dm":
            res = D_.load_data_DM(P("samples.txt"), P("mat_re.txt"), P("mat_im.txt"), P("bases.txt"), P("all_bases.txt"))
            require(len(res) == 4, "load:length", f"load_data_DM returned {len(res)} items")
            t = res[1]
            require(tuple(t.shape) == (2, Dm, Dm), "load:dm-shape", f"target matrix has shape {tuple(t.shape)}")
            require(f32_close(t[0].numpy().reshape(-1), c["mat"]["re"]) and f32_close(t[1].numpy().reshape(-1), c["mat"]["im"]), "load:dm-values",
                    "target matrix is not [real file; imaginary file] entry for entry (to single precision)")
            common(res, 2)
        else:
            kw = {"tr_mtx_real_path": P("mat_re.txt")} if which == "dm_missing_imag" else {"tr_mtx_imag_path": P("mat_im.txt")}
            expect_raises(ValueError, lambda: D_.load_data_DM(P("samples.txt"), **kw), "load:half-matrix-accepted", "load_data_DM with only one of the two matrix files")
        if which in ("samples_only", "psi", "dm") and not c.get("_second"):
            # history: the data set is regenerated AT THE SAME PATHS (different content) and loaded again in the same process
            c2 = dict(c, _second=True, bases=list(reversed(c["bases"]))[: max(2, N - 1)] if N > 2 else list(reversed(c["bases"])),
                      samples=[(k * 7 + 3) % (2 ** n) for k in c["samples"]][: max(2, N - 1)] if N > 2 else [(k + 1) % (2 ** n) for k in c["samples"]],
                      psi={"re": list(reversed(c["psi"]["im"])), "im": list(reversed(c["psi"]["re"]))},
                      mat={"re": list(reversed(c["mat"]["im"])), "im": list(reversed(c["mat"]["re"]))})
            c2["N"] = len(c2["samples"])
            _second_load(c2, tmp)
        samples_t = torch.tensor(parsed_samples, dtype=torch.double)
        barr = np.array(parsed_bases)
        keep = samples_t.clone()
        z = D_.extract_refbasis_samples(samples_t, barr)
        wantz = [r for r, b in zip(parsed_samples, c["bases"]) if set(b) == {"Z"}]
        require(z.tolist() == wantz and z.shape[-1] == n, "extract_refbasis", "extract_refbasis_samples did not return exactly the all-Z rows, in order", got=z.tolist()[:5], want=wantz[:5])
        require(torch.equal(samples_t, keep), "extract_refbasis:mutates", "extract_refbasis_samples modified the samples")
    nz = sum(1 for b in c["bases"] if set(b) == {"Z"})
    return {"nontrivial": len(set(c["bases"])) >= 2 and nz >= 1, "labels": ["which=" + which] + (["no_Z_rows"] if nz == 0 else ["all_Z_rows"] if nz == N else [])}


SUBCHECKS = [
    Sub("index", check_index, enumerate=index_cases),
    Sub("history", check_history, strategy=lambda tier: index_histories(tier), quick=640, thorough=16000),
    Sub("positions", check_positions, strategy=lambda tier: tagged(tier), quick=400, thorough=8000),
    Sub("files", check_files, strategy=lambda tier: files(tier), quick=320, thorough=8000),
]
