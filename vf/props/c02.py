"""C02 - The reconstructed density matrix is always a physical state."""
import torch
from hypothesis import strategies as st

from vf import gen, refmodel as R
from vf.common import Sub, require, PropertyViolation

PROPERTY = "C02"
RULE = ("Generated: DensityMatrix with num_visible 1..4 x num_hidden 1..4 x num_aux 1..4 (quick: 1..3) drawn independently, "
        "all weights and visible/hidden/auxiliary biases drawn with per-tensor scales in {0,.05,.5,2,8,30} (phase network's "
        "auxiliary bias held at 0), two drawn index lists for the paired / rectangular call forms and one single pair. "
        "Oracle: rho = Psi Psi^dagger with the purified amplitude Psi(sigma,a) enumerated over all 2^nh hidden and 2^na "
        "auxiliary configurations (partial trace by matrix product). Non-trivial = amplitude aux bias non-zero, weights_U of "
        "both networks non-zero, and some off-diagonal entry with |Im| > 1e-6*sqrt(rho_ii rho_jj).")
RULE_EXT = ('Extended as built: n 5..8 in 1/16 of cases; phase auxiliary bias non-zero in 1/5 of cases; every evaluation repeated after a second object was evaluated and along the in-place history A -> B -> A; importance_sampling_* and compute_normalization compared with the same reference. Rounds 5-6: num_aux = 0 (1 in 12 cases); sparse single-entry-point histories; ownership of results for every rho call form, probability and normalization.')
RULE_EXT += ' Round 10 (after an exception / long time axis): after an aborted fit() and a parameter change (same space object); sub-check sampling: empirical k-step law of DensityMatrix.sample for k in {2,17,40,100,200} on slowly mixing (balanced two-mode) networks vs T_ref^k.'
RULE_EXT += ' Re-entrant use: rho / probability / normalisation asked for from inside the callbacks of a running fit vs the reference at the parameters of that moment.'
RULE = RULE + " " + RULE_EXT
ASSUMPTIONS = ["CPU only", "parameters rescaled so |log weight| <= 300",
               "entry tolerance 1e-6*sqrt(rho_ii*rho_jj); PSD checked on the unit-diagonal congruence D^-1/2 rho D^-1/2 with eigenvalues >= -1e-7"]

REF_RTOL = 1e-7   # see c01.py: softplus threshold


@st.composite
def cases(draw, tier):
    na_hi = 3 if tier == "quick" else 4
    nmax = 3 if tier == "quick" else 4
    if draw(st.integers(0, 15)) == 0:
        case = draw(gen.state_case(types=["density"], n=(5, 8), nh=(1, 4), na=(1, 3), scales=[0.05, 0.5, 2.0], bound=300.0))   # beyond the box (up to 256 basis states)
        case["large"] = True
    else:
        case = draw(gen.state_case(types=["density"], n=(1, nmax), nh=(1, 4), na=(1, na_hi), bound=300.0))
    n = case["n"]
    m = draw(st.integers(1, 5))
    case["i1"] = draw(gen.index_list(n, m, m))
    case["i2"] = draw(gen.index_list(n, m, m))
    case["i3"] = draw(gen.index_list(n, 1, 4))
    # second parameter set, written in place into the same object after the first evaluation (evaluate, update, evaluate)
    if draw(st.booleans()):
        alt = gen.rescale_case({"am": draw(gen.net_params(n, case["nh"], case["na"])), "ph": draw(gen.net_params(n, case["nh"], case["na"], zero_d=True))}, 300.0)
        case["am2"], case["ph2"] = alt["am"], alt["ph"]
    return case


def check(case):
    state = gen.build_state(case)
    r = check_round(case, state)
    if case.get("am2"):
        # a second object of the same class and sizes but other parameters is evaluated in between; the first must be unaffected
        other = gen.build_state(dict(case, am=case["am2"], ph=case["ph2"]))
        sp = other.generate_hilbert_space()
        other.rho(sp, sp); other.normalization(sp); other.probability(sp); other.rho(sp[:1], sp[:1], expand=False)
        try:
            check_round(case, state)
        except PropertyViolation as v:
            raise PropertyViolation("after-other-object:" + v.bucket, "after evaluating another object of the same class: " + v.message, v.detail)
    if case.get("am2"):
        gen.set_net(state.rbm_am, case["am2"])
        gen.set_net(state.rbm_ph, case["ph2"])
        try:
            check_round(dict(case, am=case["am2"], ph=case["ph2"]), state)
        except PropertyViolation as v:
            raise PropertyViolation("after-inplace-update:" + v.bucket, "after an in-place parameter update of the same object: " + v.message, v.detail)
        gen.set_net(state.rbm_am, case["am"])
        gen.set_net(state.rbm_ph, case["ph"])
        try:
            check_round(case, state)
        except PropertyViolation as v:
            raise PropertyViolation("after-second-inplace-update:" + v.bucket, "after a second in-place parameter update (back to the first values): " + v.message, v.detail)
    sparse_history(case)
    mir = gen.mirrored(case)
    gen.reinit_and_set(state, mir)
    try:
        check_round(mir, state)
    except PropertyViolation as v:
        raise PropertyViolation("after-reinitialise:" + v.bucket, "after reinitialize_parameters() and writing OTHER parameters into the new parameter objects: " + v.message, v.detail)
    gen.set_net(state.rbm_am, case["am"])
    gen.set_net(state.rbm_ph, case["ph"])
    if case["n"] <= 3 and len(case["i1"]) % 3 == 1:
        # re-entrant use (see c01.py): rho, probability and normalisation asked for from INSIDE the callbacks of a running fit
        from qucumber.callbacks import LambdaCallback
        import numpy as _np2
        sp_ = state.generate_hilbert_space()
        V_ = R.bits(case["n"])
        dat_ = sp_[: min(4, sp_.shape[0])].clone()
        seen_ = []

        def look(s_):
            seen_.append((gen.net_of(s_.rbm_am), gen.net_of(s_.rbm_ph), R.lib_to_c(s_.rho(sp_, sp_)), s_.probability(sp_).double().clone(), s_.normalization(sp_).double().clone()))
        guard_, div_ = gen.divergence_guard()
        state.fit(dat_, epochs=2, pos_batch_size=2, lr=0.05, input_bases=_np2.array([["Z"] * case["n"]] * dat_.shape[0]),
                  callbacks=[LambdaCallback(on_batch_end=lambda s_, e_, b_: look(s_), on_epoch_end=lambda s_, e_: look(s_)), guard_])
        if not div_[0]:
            for j_, (am_, ph_, rho_, pr_, z_) in enumerate(seen_):
                ref_ = R.rho_ref(am_, ph_, V_)
                d_ = ref_.diagonal().real
                sc_ = torch.sqrt(d_[:, None] * d_[None, :])
                require(bool(torch.all((rho_ - ref_).abs() <= 1e-6 * sc_ + 1e-300)) and bool(torch.all((pr_ - d_).abs() <= REF_RTOL * d_)), "inside-fit-callback:rho",
                        f"look #{j_} from inside a callback of a running fit: rho / probability are not those of the parameters the model had at that moment")
                require(abs(float(z_) - float(d_.sum())) <= REF_RTOL * float(d_.sum()), "inside-fit-callback:trace!=normalization",
                        f"look #{j_} from inside a callback of a running fit: normalization() is not the trace of rho of the parameters the model had at that moment", Z=float(z_), trace=float(d_.sum()))
        state.stop_training = False
        gen.set_net(state.rbm_am, case["am"])
        gen.set_net(state.rbm_ph, case["ph"])
    if case["n"] <= 4:
        # after an exception (see c01.py): aborted fit with normalisation evaluated in a callback, caught, parameters changed, evaluated
        import numpy as _np
        sp_ = state.generate_hilbert_space()
        dat_ = sp_[: min(3, sp_.shape[0])].clone()
        gen.abort_a_fit(state, dat_, _np.array([["Z"] * case["n"]] * dat_.shape[0]), hook="on_epoch_end" if len(case["i1"]) % 2 else "on_batch_end", touch_normalization=True, space=sp_)
        z_after = state.normalization(sp_)         # evaluated once after the abort (same space object), THEN the parameters change
        mir2 = gen.mirrored(case)
        gen.set_net(state.rbm_am, mir2["am"])
        gen.set_net(state.rbm_ph, mir2["ph"])
        try:
            check_round(mir2, state, space=sp_ if len(case["i1"]) % 3 else None)
        except PropertyViolation as v:
            raise PropertyViolation("after-aborted-fit:" + v.bucket, "after a fit() that a user callback aborted with an exception (caught) and a parameter change: " + v.message, v.detail)
        gen.set_net(state.rbm_am, case["am"])
        gen.set_net(state.rbm_ph, case["ph"])
    # shared object: this state's phase network is handed to ANOTHER mixed state as its (amplitude) module and that state is evaluated;
    # the first state must be unaffected
    from qucumber.nn_states import DensityMatrix
    other = DensityMatrix(case["n"], gpu=False, module=state.rbm_ph)
    sp_ = other.generate_hilbert_space()
    other.rho(sp_, sp_); other.probability(sp_); other.rho(sp_[:1], sp_[:1], expand=False)
    try:
        check_round(case, state)
    except PropertyViolation as v:
        raise PropertyViolation("after-module-shared:" + v.bucket, "after this state's phase network was also used as the module of another mixed state: " + v.message, v.detail)
    return r


def sparse_history(case):
    """every parameter set evaluated through ONE entry point only, exactly once, on a fresh object per entry point (the rounds above
    call every entry point several times per parameter set, which hides state kept between calls):
    A -> B -> (weights of B, biases of A, phase network of A) -> A"""
    if not case.get("am2") or case["n"] > 4:
        return
    n = case["n"]
    V = R.bits(n)
    mixed_am = dict(case["am2"], b=case["am"]["b"], c=case["am"]["c"], d=case["am"]["d"])
    seq = [("A", case["am"], case["ph"]), ("B", case["am2"], case["ph2"]), ("weights of B with biases of A", mixed_am, case["ph"]), ("A again", case["am"], case["ph"])]
    refs = [R.rho_ref(R.net_from_case(a_), R.net_from_case(p_), V) for _, a_, p_ in seq]
    entry = {
        "rho": (lambda st_, sp: R.lib_to_c(st_.rho(sp, sp)), lambda r: r),
        "normalization": (lambda st_, sp: st_.normalization(sp).double().reshape(1) + 0j, lambda r: r.diagonal().real.sum().reshape(1) + 0j),
        "probability": (lambda st_, sp: st_.probability(sp).double() + 0j, lambda r: r.diagonal().real + 0j),
        "rho-paired": (lambda st_, sp: R.lib_to_c(st_.rho(sp, torch.roll(sp, 1, 0), expand=False)), lambda r: r[torch.arange(2 ** n), torch.roll(torch.arange(2 ** n), 1, 0)]),
    }
    for name, (call, want) in entry.items():
        state = gen.build_state(case)
        space = state.generate_hilbert_space()
        for (label, a_, p_), r in zip(seq, refs):
            gen.set_net(state.rbm_am, a_)
            gen.set_net(state.rbm_ph, p_)
            got, w = call(state, space), want(r)
            d = r.diagonal().real
            sc_ = float(d.max())
            require(bool(torch.all((got - w).abs() <= 1e-6 * sc_ + 1e-300)), f"sparse-history:{name}",
                    f"{name} evaluated once per parameter set (history A -> B -> weights of B with biases of A -> A) is wrong for parameter set '{label}'",
                    worst=float((got - w).abs().max()), scale=sc_)


_OWNED = set()


def check_round(case, state, space=None):
    n = case["n"]
    D = 2 ** n
    am, ph = gen.ref_nets(case)
    V = R.bits(n)
    space = state.generate_hilbert_space() if space is None else space       # histories pass the SAME space object they used before
    rho = R.lib_to_c(state.rho(space, space))
    require(rho.shape == (D, D), "shape", f"rho(space, space) has shape {tuple(rho.shape)}")
    ref = R.rho_ref(am, ph, V)
    dref = ref.diagonal().real
    scale = torch.sqrt(dref[:, None] * dref[None, :])
    err = (rho - ref).abs()
    require(bool(torch.all(err <= 1e-6 * scale + 1e-300)), "rho!=partial-trace-of-purification",
            "rho(space,space) differs entrywise from Psi Psi^dagger of the enumerated purified state",
            worst=float((err / (scale + 1e-300)).max()))
    require(bool(torch.all((rho - rho.conj().t()).abs() <= 1e-9 * scale + 1e-300)), "not-hermitian", "rho is not Hermitian")
    dlib = rho.diagonal().real
    require(bool(torch.all(dlib > 0)), "diag-nonpositive", "diagonal of rho is not positive")
    dm = 1 / torch.sqrt(dlib)
    unit = dm[:, None] * (0.5 * (rho + rho.conj().t())) * dm[None, :]
    ev = torch.linalg.eigvalsh(unit)
    require(float(ev.min()) >= -1e-7, "not-psd", "rho has a negative eigenvalue (checked on the unit-diagonal congruence)", min_eig=float(ev.min()))
    prob = state.probability(space).double()
    require(bool(torch.all((dlib - prob).abs() <= REF_RTOL * prob)), "diag!=probability",
            "diagonal of rho differs from the probabilities the model reports (and samples from)", diag=dlib.tolist(), prob=prob.tolist())
    pv = torch.exp(R.log_prob_visible(am, V))
    require(bool(torch.all((prob - pv).abs() <= REF_RTOL * pv)), "probability!=visible-marginal",
            "probability() differs from the enumerated visible marginal of the amplitude network", prob=prob.tolist(), ref=pv.tolist())
    Z = float(state.normalization(space))
    tr = float(dlib.sum())
    require(abs(Z - tr) <= REF_RTOL * tr, "trace!=normalization", "trace of rho differs from normalization()", Z=Z, trace=tr)
    # precision tier (see c01.py): product-form reference with torch's softplus -> agreement to ~1e-11
    with R.library_precision():
        ref_p = R.rho_ref(am, ph, V)
        pv_p = torch.exp(R.log_prob_visible(am, V))
    sc_p = torch.sqrt(ref_p.diagonal().real[:, None] * ref_p.diagonal().real[None, :])
    prec_rho = 1e-11 + 1e-14 / max(gen.min_aux_factor(case), 1e-12)      # digits any log-representation of rho(v, v') loses where an auxiliary-unit factor nearly vanishes
    require(bool(torch.all((rho - ref_p).abs() <= prec_rho * sc_p + 1e-300)), "precision:rho", "rho is not accurate to double precision (1e-11 of sqrt(rho_ii rho_jj) against the product-form reference)",
            worst=float(((rho - ref_p).abs() / (sc_p + 1e-300)).max()))
    require(bool(torch.all((prob - pv_p).abs() <= 1e-11 * pv_p)) and abs(Z - float(pv_p.sum())) <= 1e-11 * float(pv_p.sum()), "precision:probability/normalization",
            "probability / normalization are not accurate to double precision", worst=float(((prob - pv_p).abs() / pv_p).max()))

    # call forms
    i1, i2, i3 = case["i1"], case["i2"], case["i3"]
    v, vp = space[i1], space[i2]
    tol = lambda a, b, sc: bool(torch.all((a - b).abs() <= 1e-9 * sc + 1e-300))
    pair = R.lib_to_c(state.rho(v, vp, expand=False))
    require(pair.shape == (len(i1),), "callform:paired-shape", f"rho(v,vp,expand=False) has shape {tuple(pair.shape)}")
    require(tol(pair, rho[i1, i2], scale[i1, i2]), "callform:paired", "rho(v, vp, expand=False) differs from the entries of the full matrix")
    rect = R.lib_to_c(state.rho(v, space[i3]))
    require(rect.shape == (len(i1), len(i3)), "callform:rect-shape", f"rho(v, vp) rectangular has shape {tuple(rect.shape)}")
    require(tol(rect, rho[i1][:, i3], scale[i1][:, i3]), "callform:rect", "rho(v, vp) on sub-batches differs from the block of the full matrix")
    # the caller's batch buffers re-used for other configurations (filled in place between two calls): the second call sees the new contents
    bufv, bufw = space[i1].clone(), space[i3].clone()
    rb1 = R.lib_to_c(state.rho(bufv, bufw))
    bufv.copy_(space[i2])
    rb2 = R.lib_to_c(state.rho(bufv, bufw))
    pb2 = R.lib_to_c(state.rho(bufv, space[i1].clone(), expand=False))
    require(tol(rb1, rho[i1][:, i3], scale[i1][:, i3]) and tol(rb2, rho[i2][:, i3], scale[i2][:, i3]) and tol(pb2, rho[i2, i1], scale[i2, i1]), "callform:buffer-refilled-in-place",
            "rho(v, vp) with the caller's batch tensor refilled in place between two calls does not follow the tensor's current contents")
    single = state.rho(space[i1[0]], space[i2[0]])
    require(tuple(single.shape) == (2,), "callform:single-shape", f"rho of two 1-D states has shape {tuple(single.shape)}, expected (2,)")
    require(abs(complex(R.lib_to_c(single)) - complex(rho[i1[0], i2[0]])) <= 1e-9 * float(scale[i1[0], i2[0]]) + 1e-300,
            "callform:single", "single-element rho differs from the full matrix entry")
    single_nx = state.rho(space[i1[0]], space[i2[0]], expand=False)
    require(tuple(single_nx.shape) == (2,) and abs(complex(R.lib_to_c(single_nx)) - complex(rho[i1[0], i2[0]])) <= 1e-9 * float(scale[i1[0], i2[0]]) + 1e-300,
            "callform:single-noexpand", "single-element rho (expand=False) differs from the full matrix entry")
    one = R.lib_to_c(state.rho(v))
    require(one.shape == (len(i1), len(i1)) and tol(one, rho[i1][:, i1], scale[i1][:, i1]), "callform:one-arg",
            "rho(v) differs from rho(v, v)")
    onev = R.lib_to_c(state.rho(v, expand=False))
    require(onev.shape == (len(i1),) and bool(torch.all(onev.imag == 0)) and bool(torch.all((onev.real - dlib[i1]).abs() <= REF_RTOL * dlib[i1])),
            "callform:one-arg-noexpand", "rho(v, expand=False) is not the diagonal entries")

    num = R.lib_to_c(state.importance_sampling_numerator(vp, v))          # rho(sigma', sigma), paired
    den = R.lib_to_c(state.importance_sampling_denominator(v))
    wgt = R.lib_to_c(state.importance_sampling_weight(vp, v))
    require(tol(num, rho[i2, i1], scale[i2, i1]), "importance-sampling:numerator", "importance_sampling_numerator(sigma', sigma) is not rho(sigma', sigma)")
    require(bool(torch.all(den.imag == 0)) and bool(torch.all((den.real - dlib[i1]).abs() <= REF_RTOL * dlib[i1])), "importance-sampling:denominator",
            "importance_sampling_denominator(sigma) is not rho(sigma, sigma)")
    require(bool(torch.all((wgt - rho[i2, i1] / dlib[i1]).abs() <= 1e-6 * scale[i2, i1] / dlib[i1] + 1e-300)), "importance-sampling:weight",
            "importance_sampling_weight(sigma', sigma) is not rho(sigma', sigma) / rho(sigma, sigma)")
    require(abs(float(state.compute_normalization(space)) - Z) <= 1e-12 * abs(Z), "alias:compute_normalization", "compute_normalization() differs from normalization()")
    # results belong to the caller: a held result survives later calls of the same shape, and editing a result in place does not leak
    first_round = id(state) not in _OWNED
    _OWNED.clear()
    _OWNED.add(id(state))
    calls = {} if not first_round else {"rho(space,space)": lambda: state.rho(space, space), "rho(v,vp,expand=False)": lambda: state.rho(v, vp, expand=False),
             "rho(vp,v,expand=False)": lambda: state.rho(vp, v, expand=False), "rho(v, sub)": lambda: state.rho(v, space[i3]),
             "rho(single)": lambda: state.rho(space[i1[0]], space[i2[0]]), "probability": lambda: state.probability(space),
             "normalization": lambda: state.normalization(space)}
    held = []
    for name, fn in calls.items():
        first = fn()
        held.append((name, first, first.detach().clone()))
    for name, fn in calls.items():
        second = fn()
        second.mul_(0.5)
        for hn, ht, hv in held:
            require(torch.equal(ht, hv), "ownership:earlier-result-changed", f"the tensor returned earlier by {hn} changed after a later call / in-place edit of the result of {name}")
        third = fn()
        want = next(hv for hn, ht, hv in held if hn == name)
        require(torch.equal(third, want), "ownership:result-edit-leaks", f"editing the tensor returned by {name} in place changed what the same call returns afterwards")
    offd = rho - torch.diag(rho.diagonal())
    nt = bool((offd.imag.abs() > 1e-6 * scale).any())
    return {"nontrivial": nt}


def nontrivial(case):
    nz = lambda x: any(abs(float(t)) > 0 for row in x for t in (row if isinstance(row, list) else [row]))
    return nz(case["am"]["d"]) and nz(case["am"]["U"]) and nz(case["ph"]["U"]) and gen.all_biases_nonzero(case)


@st.composite
def sampling_cases(draw, tier):
    """the diagonal is what the model samples from - also with long chains (more than 16 / 32 Gibbs steps) on slowly mixing (strongly coupled) models"""
    k = draw(st.sampled_from([2, 17, 40, 200, 200, 100]))
    sc = draw(gen.state_case(types=["density"], n=(2, 3), nh=(1, 2), na=(1, 2), scales=[2.0, 4.0, 6.0] if k > 2 else [0.5, 2.0], bound=40.0))
    if k > 2 and draw(st.integers(0, 2)) > 0:
        sc["am"] = draw(gen.balanced_net(sc["n"], sc["nh"], sc["na"]))        # two-mode, slowly mixing kernel
    return {"state": sc, "k": k, "v0": draw(st.integers(0, 2 ** sc["n"] - 1)), "torch_seed": draw(st.integers(0, 2 ** 31 - 1)), "m": draw(st.integers(1, 5))}


def check_sampling(case):
    from vf.props import c05
    return c05.check_empirical(case)


SUBCHECKS = [
    Sub("physical", check, strategy=lambda tier: cases(tier), quick=1500, thorough=30000, nontrivial=nontrivial, labels=gen.arch_label),
    Sub("sampling", check_sampling, strategy=lambda tier: sampling_cases(tier), quick=48, thorough=480, per_shard=3),
]
