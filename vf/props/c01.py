"""C01 - Wavefunction states satisfy the Born rule they are defined by."""
import torch
from hypothesis import strategies as st

from vf import gen, refmodel as R
from vf.common import Sub, require, PropertyViolation

PROPERTY = "C01"
RULE = ("Generated: state type in {positive, complex}, num_visible 1..5 x num_hidden 1..6 drawn independently, every "
        "weight/bias tensor drawn with its own scale in {0,.05,.5,2,8,30} (all biases drawn, either sign), a drawn "
        "sub-batch of basis-state indices (repeats, any order) and one 1-D row; 'grid' sub-check enumerates every "
        "(type,n,nh) of the box with generated parameters. Oracle: brute-force hidden-unit marginal (explicit sum over "
        "2^nh hidden configurations). Non-trivial = every bias vector of every network has a non-zero entry AND some "
        "|parameter| >= 0.5; distinct = SHA-1 of the canonical JSON of the case.")
RULE_EXT = ('Extended as built: n up to 10 (1/16 of cases), structured parameter families (equal / alternating / extreme entries), complex states built from a user module half the time; every evaluation is repeated after read-only operations, after evaluating a second object, and along the in-place history A -> B -> (biases of A, weights of B) -> A; sample batches as rank-3, float32, int64 and uint8 tensors; aliases compute_normalization and importance_sampling_numerator/denominator/weight are compared with the same reference. Rounds 5-6: replacement amplitude network (other hidden size) through the rbm_am setter; sparse histories (one entry point, one evaluation per parameter set); ownership of results (held results unchanged by later calls, no shared memory, in-place edits of a result do not leak).')
RULE_EXT += ' Round 10 (after an exception / long time axis): after a fit() aborted by an exception from a user callback (normalisation evaluated in its callbacks, same space object) and a parameter change; 40 parameter states evaluated on one object with the normalisation asked for twice at each; sub-batch psi compared relative to the modulus.'
RULE_EXT += " Re-entrant use: psi / probability / normalisation asked for from inside the callbacks of a running fit (every batch end, epoch start and end, the caller's one space object) vs the reference at the parameters of that moment."
RULE = RULE + " " + RULE_EXT
ASSUMPTIONS = ["CPU only", "parameters rescaled by construction so that |log weight| <= 300 (double-precision exp range)",
               "rtol 1e-7 against the enumeration oracle (softplus threshold e^-20 per hidden unit), 1e-9 between library outputs"]


@st.composite
def cases(draw, types=("positive", "complex"), nrange=(1, 5), nhrange=(1, 6)):
    if draw(st.integers(0, 11)) == 0:
        # beyond the property's box: larger registers / hidden layers (size-dependent code paths, e.g. chunking or caching by size)
        case = draw(gen.state_case(types=list(types), n=(6, 10), nh=(1, 9), scales=[0.05, 0.5, 2.0], bound=300.0))
        case["large"] = True
    else:
        case = draw(gen.state_case(types=list(types), n=nrange, nh=nhrange, bound=300.0))
    n = case["n"]
    case["idx"] = draw(gen.index_list(n, 1, 6))
    case["row"] = draw(st.integers(0, 2 ** n - 1))
    if case["type"] == "complex":
        case["ph2"] = gen.rescale_case({"am": draw(gen.net_params(n, case["nh"]))}, 300.0)["am"]
    # second parameter set written IN PLACE into the same object after the first evaluation (history: evaluate, update, evaluate)
    case["am2"] = gen.rescale_case({"am": draw(gen.net_params(n, case["nh"]))}, 300.0)["am"]
    if draw(st.booleans()):
        # a replacement amplitude network (another number of hidden units) installed through the public rbm_am setter
        case["am3"] = gen.rescale_case({"am": draw(gen.net_params(n, draw(st.integers(1, 6))))}, 300.0)["am"]
    return case


# torch's softplus switches to the identity above its threshold 20, i.e. the library's log-marginal carries an
# absolute error of up to e^-20 = 2.1e-9 per hidden unit (<= 1.3e-8 for nh <= 6).  That is the library's documented
# numerical behaviour, not a defect, so comparisons against the exact enumeration use 1e-7; identities between
# two library outputs (|psi|^2 vs probability, Z vs sum) keep 1e-9.
REF_RTOL = 1e-7


def strategy(tier):
    return cases()


def cclose(a, b, rtol):
    """complex entries agree to rtol of their MODULUS (the rounding of a phase near a multiple of pi moves the small component by a
    relative amount that is large for that component alone - e.g. Im psi = 1.8e-3 |psi| changes by 1e-12 of itself when the phase moves one ulp)"""
    return bool(torch.all((a - b).abs() <= rtol * b.abs() + 1e-300))


def close(a, b, rtol, atol=0.0):
    return bool(torch.all((a - b).abs() <= rtol * b.abs() + atol))


def build(case):
    """half of the complex states are built from a user-supplied BinaryRBM (module=...) and then given their phase parameters"""
    if case["type"] == "complex" and case["row"] % 2 == 1:
        from qucumber.nn_states import ComplexWaveFunction
        from qucumber.rbm import BinaryRBM
        mod = BinaryRBM(case["n"], case["nh"], gpu=False)
        gen.set_net(mod, case["am"])
        st_ = ComplexWaveFunction(case["n"], gpu=False, module=mod)
        gen.set_net(st_.rbm_ph, case["ph"])
        return st_
    return gen.build_state(case)


def check(case):
    state = build(case)
    r = check_round(case, state)
    # history without any parameter change: other public read-only operations (metrics, sampling, observables, rotation) in
    # between must not disturb what the state reports afterwards
    interleave_readonly(case, state)
    try:
        check_round(case, state)
    except PropertyViolation as v:
        raise PropertyViolation("after-readonly-ops:" + v.bucket, "after other read-only operations on the same object: " + v.message, v.detail)
    if case.get("am2"):
        # same object, parameters updated in place (as an optimizer or load() does): everything must hold again
        gen.set_net(state.rbm_am, case["am2"])
        c2 = dict(case, am=case["am2"])
        try:
            check_round(c2, state)
        except PropertyViolation as v:
            raise PropertyViolation("after-inplace-update:" + v.bucket, "after an in-place parameter update of the same object: " + v.message, v.detail)
        # ... a PARTIAL update: only the biases go back to their first values, the weights keep the second ones
        mixed = {"W": case["am2"]["W"], "b": case["am"]["b"], "c": case["am"]["c"]}
        gen.set_net(state.rbm_am, {"b": mixed["b"], "c": mixed["c"]})
        try:
            check_round(dict(case, am=mixed), state)
        except PropertyViolation as v:
            raise PropertyViolation("after-partial-update:" + v.bucket, "after restoring only the biases (weights unchanged since the last update): " + v.message, v.detail)
        # ... and back to the original parameters (A -> B -> mixed -> A)
        gen.set_net(state.rbm_am, case["am"])
        try:
            check_round(case, state)
        except PropertyViolation as v:
            raise PropertyViolation("after-second-inplace-update:" + v.bucket, "after a second in-place parameter update (back to the first values): " + v.message, v.detail)
    sparse_history(case)
    # lifecycle: evaluated state -> reinitialize_parameters() (new parameter objects) -> same parameters written again -> everything holds again
    mir = gen.mirrored(case)
    gen.reinit_and_set(state, mir)
    try:
        check_round(mir, state)
    except PropertyViolation as v:
        raise PropertyViolation("after-reinitialise:" + v.bucket, "after reinitialize_parameters() and writing OTHER parameters into the new parameter objects: " + v.message, v.detail)
    gen.set_net(state.rbm_am, case["am"])
    if case.get("ph"):
        gen.set_net(state.rbm_ph, case["ph"])
    if case["n"] <= 6:
        # after an exception: a training run that evaluates the normalisation in its callbacks is aborted by a user callback (caught); the
        # caller then writes parameters and evaluates: everything must be that of the CURRENT parameters
        import numpy as _np
        sp_ = state.generate_hilbert_space()
        dat_ = sp_[: min(3, sp_.shape[0])].clone()
        bas_ = None if case["type"] == "positive" else _np.array([["Z"] * case["n"]] * dat_.shape[0])
        gen.abort_a_fit(state, dat_, bas_, hook="on_epoch_end" if case["row"] % 2 else "on_batch_end", touch_normalization=True, space=sp_)
        z_after = state.normalization(sp_)         # evaluated once after the abort (same space object), THEN the parameters change
        mir2 = gen.mirrored(case)
        gen.set_net(state.rbm_am, mir2["am"])
        if case.get("ph"):
            gen.set_net(state.rbm_ph, mir2["ph"])
        try:
            check_round(mir2, state, space=sp_ if case["row"] % 3 else None)
        except PropertyViolation as v:
            raise PropertyViolation("after-aborted-fit:" + v.bucket, "after a fit() that a user callback aborted with an exception (caught) and a parameter change: " + v.message, v.detail)
        gen.set_net(state.rbm_am, case["am"])
        if case.get("ph"):
            gen.set_net(state.rbm_ph, case["ph"])
    if case["n"] <= 5 and case["row"] % 3 == 1:
        # re-entrant use: psi / probability / normalisation asked for from INSIDE the callbacks of a running fit (every batch end and epoch end,
        # on the caller's one space object, as a MetricEvaluator does): each answer must be that of the parameters the model has at that moment
        from qucumber.callbacks import LambdaCallback
        import numpy as _np2
        sp_ = state.generate_hilbert_space()
        V_ = R.bits(case["n"])
        dat_ = sp_[: min(4, sp_.shape[0])].clone()
        seen_ = []

        def look(s_, *a_):
            z_ = s_.normalization(sp_).double().clone()
            seen_.append((gen.net_of(s_.rbm_am), R.lib_to_c(s_.psi(sp_)), s_.probability(sp_).double().clone(), z_, s_.normalization(sp_).double().clone()))
        guard_, div_ = gen.divergence_guard()
        state.fit(dat_, epochs=3, pos_batch_size=2, lr=0.05, callbacks=[LambdaCallback(on_batch_end=lambda s_, e_, b_: look(s_), on_epoch_end=lambda s_, e_: look(s_), on_epoch_start=lambda s_, e_: look(s_)), guard_],
                  **({} if case["type"] == "positive" else {"input_bases": _np2.array([["Z"] * case["n"]] * dat_.shape[0])}))
        if not div_[0]:
            for j_, (am_, psi_, pr_, z1_, z2_) in enumerate(seen_):
                p_ref_ = torch.exp(R.log_marg(am_, V_))
                require(close(pr_, p_ref_, REF_RTOL) and close(psi_.real ** 2 + psi_.imag ** 2, p_ref_, REF_RTOL), "inside-fit-callback:probability",
                        f"look #{j_} from inside a callback of a running fit: probability / |psi|^2 are not those of the parameters the model had at that moment")
                require(close(z1_, p_ref_.sum(), REF_RTOL) and close(z2_, p_ref_.sum(), REF_RTOL), "inside-fit-callback:normalization",
                        f"look #{j_} from inside a callback of a running fit: normalization() is not the sum of the probabilities of the parameters the model had at that moment",
                        first=float(z1_), second=float(z2_), want=float(p_ref_.sum()))
        state.stop_training = False
        gen.set_net(state.rbm_am, case["am"])
        if case.get("ph"):
            gen.set_net(state.rbm_ph, case["ph"])
    if case["n"] <= 4 and case["row"] % 5 == 0:
        # long time axis: more than 32 (40) different parameter states evaluated on ONE state object and one space object, the normalisation
        # asked for twice at each (as several metrics of one evaluator do)
        sp_ = state.generate_hilbert_space()
        V_ = R.bits(case["n"])
        for i_ in range(40):
            f_ = 1.0 - 0.02 * (i_ + 1)
            cur_ = dict(case, am={k_: (torch.tensor(v_, dtype=torch.double) * f_).tolist() for k_, v_ in case["am"].items()})
            gen.set_net(state.rbm_am, cur_["am"])
            want_ = torch.exp(R.log_marg(R.net_from_case(cur_["am"]), V_)).sum()
            z1_ = state.normalization(sp_).double()
            pr_ = state.probability(sp_, state.normalization(sp_)).double().sum()
            z2_ = state.normalization(sp_).double()
            require(close(z1_, want_, REF_RTOL) and close(z2_, want_, REF_RTOL) and abs(float(pr_) - 1.0) <= 1e-9, "long-history:normalization",
                    f"parameter state {i_ + 1} of 40 evaluated on one object: normalization() is not the sum of the probabilities of the CURRENT parameters",
                    first=float(z1_), second=float(z2_), want=float(want_), total_probability=float(pr_))
        gen.set_net(state.rbm_am, case["am"])
    shared_module(case)
    if case.get("am3"):
        from qucumber.rbm import BinaryRBM
        new = BinaryRBM(case["n"], len(case["am3"]["c"]), gpu=False)
        gen.set_net(new, case["am3"])
        state.rbm_am = new
        try:
            check_round(dict(case, am=case["am3"], am2=None), state)
        except PropertyViolation as v:
            raise PropertyViolation("after-network-replaced:" + v.bucket, "after installing another amplitude network through the rbm_am setter: " + v.message, v.detail)
    return r


def sparse_history(case):
    """Histories in which every parameter set is evaluated through ONE entry point only, exactly once (the rounds above call every
    entry point several times per parameter set, which refreshes - and so hides - state kept between calls): a fresh object per entry
    point, parameter sets A -> B -> (weights of B, biases of A) -> A, one call after each update."""
    if not case.get("am2") or case["n"] > 6:
        return
    n = case["n"]
    V = R.bits(n)
    mixed = {"W": case["am2"]["W"], "b": case["am"]["b"], "c": case["am"]["c"]}
    seq = [("A", case["am"]), ("B", case["am2"]), ("weights of B with biases of A", mixed), ("A again", case["am"])]
    refs = [torch.exp(R.log_marg(R.net_from_case(pset), V)) for _, pset in seq]
    entry = {
        "normalization": (lambda st_, sp: st_.normalization(sp).double().reshape(1), lambda pr: pr.sum().reshape(1)),
        "probability": (lambda st_, sp: st_.probability(sp).double(), lambda pr: pr),
        "psi": (lambda st_, sp: (R.lib_to_c(st_.psi(sp)).abs() ** 2), lambda pr: pr),
        "amplitude": (lambda st_, sp: st_.amplitude(sp).double() ** 2, lambda pr: pr),
    }
    for name, (call, want) in entry.items():
        state = build(case)
        space = state.generate_hilbert_space()
        for (label, pset), pr in zip(seq, refs):
            gen.set_net(state.rbm_am, pset)
            got = call(state, space)
            require(close(got, want(pr), REF_RTOL), f"sparse-history:{name}",
                    f"{name}() evaluated once per parameter set (history A -> B -> weights of B with biases of A -> A) is wrong for parameter set '{label}'",
                    got=got.tolist()[:8], want=want(pr).tolist()[:8])


def shared_module(case):
    """two states built on the SAME user-supplied amplitude module (a positive and a complex one): evaluate A, change the shared module in
    place, evaluate B, evaluate A again - each must report the module's current parameters"""
    if not case.get("am2") or case["n"] > 6:
        return
    from qucumber.nn_states import ComplexWaveFunction, PositiveWaveFunction
    from qucumber.rbm import BinaryRBM
    n = case["n"]
    mod = BinaryRBM(n, len(case["am"]["c"]), gpu=False)
    gen.set_net(mod, case["am"])
    A = PositiveWaveFunction(n, gpu=False, module=mod)
    B = ComplexWaveFunction(n, gpu=False, module=mod)
    V = R.bits(n)
    space = A.generate_hilbert_space()
    pA = torch.exp(R.log_marg(R.net_from_case(case["am"]), V))
    pB = torch.exp(R.log_marg(R.net_from_case(case["am2"]), V))
    ok = lambda st_, pr: close(st_.probability(space).double(), pr, REF_RTOL) and close(st_.normalization(space).double(), pr.sum(), REF_RTOL)
    require(ok(A, pA), "shared-module:first", "a state built on a user module does not report that module's distribution")
    gen.set_net(mod, case["am2"])
    require(ok(B, pB), "shared-module:second-state", "after the shared module was changed in place, the second state built on it does not report the new distribution")
    require(ok(A, pB), "shared-module:first-state-stale", "after the shared module was changed in place (and the second state evaluated), the first state still reports the old distribution")
    gen.set_net(mod, case["am"])
    require(ok(A, pA) and ok(B, pA), "shared-module:restored", "with the shared module's first parameters restored the two states do not report the first distribution")


def interleave_readonly(case, state):
    from qucumber.observables import SigmaX, SigmaZ
    from qucumber.utils import training_statistics as TS, unitaries as UN
    n = case["n"]
    space = state.generate_hilbert_space()
    D = 2 ** n
    tgt = torch.zeros(2, D, dtype=torch.double)
    tgt[0] = 1 / D ** 0.5
    which = case["row"] % 4
    if which in (0, 1):
        TS.fidelity(state, tgt, space)
    if which in (1, 2):
        TS.KL(state, tgt, space)
        TS.NLL(state, space[case["idx"]], space)
    if which in (2, 3):
        state.sample(2, num_samples=3)
        SigmaX().apply(state, space[case["idx"]])
        SigmaZ().statistics_from_samples(state, space[case["idx"]])
    if which in (0, 3):
        UN.rotate_psi(state, "X" * n, space, unitaries=UN.create_dict())
    if case.get("am2"):
        # a second object of the same class and sizes but other parameters is evaluated in between (shared / class-level state)
        other = build(dict(case, am=case["am2"]))
        other.normalization(space); other.psi(space); other.probability(space); other.sample(1, num_samples=2)


_OWNED = set()


def check_round(case, state, space=None):
    n = case["n"]
    am, ph = gen.ref_nets(case)
    V = R.bits(n)
    space = state.generate_hilbert_space() if space is None else space       # histories pass the SAME space object they used before
    require(space.shape == (2 ** n, n), "space-shape", f"generate_hilbert_space shape {tuple(space.shape)}")
    require(torch.equal(space.double(), V), "space-order", "generate_hilbert_space is not the big-endian enumeration")

    psi = R.lib_to_c(state.psi(space))
    prob = state.probability(space).double()
    Z = state.normalization(space).double()
    amp = state.amplitude(space).double()
    phase = state.phase(space).double()
    require(psi.shape == (2 ** n,) and prob.shape == (2 ** n,) and amp.shape == (2 ** n,) and phase.shape == (2 ** n,),
            "shapes", "batched call forms must return one entry per basis state")

    lm = R.log_marg(am, V)
    p_ref = torch.exp(lm)
    mod2 = psi.real ** 2 + psi.imag ** 2
    require(close(mod2, prob, 1e-9), "born:|psi|^2!=probability", "squared modulus of psi differs from probability()",
            mod2=mod2.tolist(), prob=prob.tolist())
    require(close(prob, p_ref, REF_RTOL), "born:probability!=hidden-marginal",
            "probability() differs from the brute-force hidden-unit marginal of the amplitude network",
            prob=prob.tolist(), ref=p_ref.tolist())
    require(close(Z, p_ref.sum(), REF_RTOL) and close(Z, prob.sum(), 1e-9), "normalization",
            "normalization() is not the sum of the probabilities over the whole basis", Z=float(Z), ref=float(p_ref.sum()))
    pn = state.probability(space, Z).double()
    require(abs(float(pn.sum()) - 1) <= 1e-9, "normalised-sum", "normalised probabilities do not sum to one", s=float(pn.sum()))
    psin = psi / torch.sqrt(Z)
    nrm = float((psin.real ** 2 + psin.imag ** 2).sum())
    require(abs(nrm - 1) <= 1e-9, "unit-norm", "normalised wavefunction does not have unit norm", norm=nrm)
    require(close(amp, torch.sqrt(p_ref), REF_RTOL) and close(amp ** 2, mod2, 1e-9), "amplitude",
            "amplitude() is not |psi| = sqrt(marginal)")

    # precision tier: the same reference in product form with torch's softplus reproduces the library's documented arithmetic, so every
    # quantity must agree to ~1e-11 (a single-precision intermediate, a rounded constant or an added regulariser shows here)
    with R.library_precision():
        p_prec = torch.exp(R.log_marg(am, V))
        psi_prec = R.psi_ref(am, ph, V)
    PREC = 1e-11
    require(close(prob, p_prec, PREC) and close(amp, torch.sqrt(p_prec), PREC) and close(Z, p_prec.sum(), PREC), "precision:probability/amplitude/normalization",
            "probability / amplitude / normalization are not accurate to double precision (relative 1e-11 against the product-form reference)",
            worst=float(((prob - p_prec).abs() / p_prec).max()))
    require(bool(torch.all((psi - psi_prec).abs() <= PREC * psi_prec.abs() + 1e-300)), "precision:psi",
            "psi is not accurate to double precision (relative 1e-11 against the product-form reference)", worst=float(((psi - psi_prec).abs() / (psi_prec.abs() + 1e-300)).max()))
    require(close(pn, p_prec / p_prec.sum(), PREC), "precision:normalised-probability", "probability(space, Z) is not accurate to double precision")
    if case["type"] == "positive":
        require(bool(torch.all(psi.imag == 0)), "positive:imag", "positive wavefunction has a non-zero imaginary part")
        require(bool(torch.all(psi.real >= 0)), "positive:sign", "positive wavefunction has a negative entry")
        require(bool(torch.all(phase == 0)), "positive:phase", "positive wavefunction reports a non-zero phase")
    else:
        ph_ref = 0.5 * R.log_marg(ph, V)   # = -E_mu/2 with E_mu the phase network's effective energy
        require(bool(torch.all((phase - ph_ref).abs() <= REF_RTOL * (1 + ph_ref.abs()))), "complex:phase",
                "phase() is not half the negated effective energy of the phase network",
                phase=phase.tolist(), ref=ph_ref.tolist())
        psi_ref = R.psi_ref(am, ph, V)
        require(bool(torch.all((psi - psi_ref).abs() <= REF_RTOL * psi_ref.abs() + 1e-300)), "complex:psi",
                "psi differs from amplitude*exp(i*phase) of the reference", psi=[str(x) for x in psi.tolist()],
                ref=[str(x) for x in psi_ref.tolist()])
        # metamorphic: modulus depends only on the amplitude network
        gen.set_net(state.rbm_ph, case["ph2"])
        amp2 = state.amplitude(space).double()
        prob2 = state.probability(space).double()
        psi2 = R.lib_to_c(state.psi(space))
        require(close(amp2, amp, 1e-12) and close(prob2, prob, 1e-12) and
                close(psi2.real ** 2 + psi2.imag ** 2, mod2, 1e-9), "complex:modulus-depends-on-phase-net",
                "modulus/probability changed when only the phase network was changed")
        gen.set_net(state.rbm_ph, case["ph"])

    # public aliases and the importance-sampling entry points the observables use
    Za = state.compute_normalization(space).double()
    require(close(Za, Z, 1e-12), "alias:compute_normalization", "compute_normalization() differs from normalization()")
    ii = case["idx"]
    jj = list(reversed(case["idx"]))
    num = R.lib_to_c(state.importance_sampling_numerator(space[ii], space[jj]))
    den = R.lib_to_c(state.importance_sampling_denominator(space[jj]))
    wgt = R.lib_to_c(state.importance_sampling_weight(space[ii], space[jj]))
    require(bool(torch.all((num - psi[ii]).abs() <= 1e-12 * psi[ii].abs())) and bool(torch.all((den - psi[jj]).abs() <= 1e-12 * psi[jj].abs())),
            "importance-sampling:numerator/denominator", "importance_sampling_numerator/denominator are not psi(sigma') / psi(sigma)")
    require(bool(torch.all((wgt - psi[ii] / psi[jj]).abs() <= 1e-9 * (psi[ii] / psi[jj]).abs())), "importance-sampling:weight",
            "importance_sampling_weight(sigma', sigma) is not psi(sigma')/psi(sigma)")
    # call forms: sub-batch with repeats / any order, and the 1-D form
    idx = case["idx"]
    sub = space[idx]
    psi_s = R.lib_to_c(state.psi(sub))
    require(psi_s.shape == (len(idx),) and cclose(psi_s, psi[idx], 1e-12),
            "callform:sub-batch", "psi of a sub-batch differs from the corresponding entries of psi(space)")
    require(close(state.probability(sub).double(), prob[idx], 1e-12), "callform:sub-batch-prob", "probability of a sub-batch differs")
    # rank-3 batches (the form the library's own rotation code uses): psi of a (a, b, n) tensor is (2, a, b)
    if len(idx) >= 2:
        m = len(idx) // 2 * 2
        v3 = space[idx[:m]].reshape(2, m // 2, n)
        p3 = state.psi(v3)
        require(tuple(p3.shape) == (2, 2, m // 2), "callform:rank3-shape", f"psi of a (2,{m // 2},{n}) batch has shape {tuple(p3.shape)}")
        p3c = R.lib_to_c(p3).reshape(-1)
        require(cclose(p3c, psi[idx[:m]], 1e-12), "callform:rank3",
                "psi of a rank-3 batch differs from the corresponding entries of psi(space)")
        require(close(state.probability(v3).double().reshape(-1), prob[idx[:m]], 1e-12), "callform:rank3-prob", "probability of a rank-3 batch differs")
    # sample tensors of other dtypes (what torch.bernoulli / a data loader / an index computation hands over): same values
    for dt in (torch.float32, torch.int64, torch.uint8):
        alt = sub.to(dt)
        pa = R.lib_to_c(state.psi(alt))
        require(pa.shape == (len(idx),) and cclose(pa, psi[idx], 1e-12),
                "callform:dtype", f"psi of a {dt} sample tensor differs from psi of the same states in float64")
        require(close(state.probability(alt).double(), prob[idx], 1e-12), "callform:dtype-prob", f"probability of a {dt} sample tensor differs")
        for Zform in (Z, float(Z)):
            pz = state.probability(alt, Zform).double()
            require(close(pz, prob[idx] / Z, 1e-7 if dt == torch.float32 else 1e-12), "callform:dtype-prob-normalised",
                    f"normalised probability of a {dt} sample tensor (Z given as {type(Zform).__name__}) differs from probability/Z")
    k = case["row"]
    v1 = space[k]
    p1 = state.psi(v1)
    require(tuple(p1.shape) == (2,), "callform:1d-shape", f"psi of a 1-D state has shape {tuple(p1.shape)}, expected (2,)")
    p1c = R.lib_to_c(p1)
    require(abs(complex(p1c) - complex(psi[k])) <= 1e-12 * abs(complex(psi[k])), "callform:1d-psi", "psi(v) for a 1-D v differs from row of batched call")
    for name, fn, ref in (("probability", state.probability, prob), ("amplitude", state.amplitude, amp), ("phase", state.phase, phase)):
        o = fn(v1)
        require(o.dim() == 0, f"callform:1d-{name}-shape", f"{name} of a 1-D state has shape {tuple(o.shape)}, expected scalar")
        require(abs(float(o) - float(ref[k])) <= 1e-12 * abs(float(ref[k])) + 1e-300, f"callform:1d-{name}",
                f"{name}(v) for a 1-D v differs from the batched value")
    # the caller's batch buffer filled in place with other configurations between two calls
    buf = sub.clone()
    state.psi(buf); state.probability(buf)
    buf.copy_(space[list(reversed(idx))])
    pr_ = R.lib_to_c(state.psi(buf))
    require(cclose(pr_, psi[list(reversed(idx))], 1e-12) and
            close(state.probability(buf).double(), prob[list(reversed(idx))], 1e-12), "callform:buffer-refilled-in-place",
            "psi / probability of a sample tensor that was refilled in place do not follow the tensor's current contents")
    # results belong to the caller: every returned tensor is edited in place (as a caller normalising or shifting a result would) and each
    # entry point is asked again, for the whole space, a sub-batch and the 1-D form; earlier results must also survive later calls
    if id(state) in _OWNED:          # once per state object (the first round); later rounds re-verify values only
        return {}
    _OWNED.clear()
    _OWNED.add(id(state))
    entry = {"psi": state.psi, "probability": state.probability, "amplitude": state.amplitude, "phase": state.phase,
             "normalization": lambda arg: state.normalization(space)}
    for name, fn in entry.items():
        for arg_name, arg in (("space", space), ("sub-batch", sub), ("1-D", v1)):
            first = fn(arg)
            keep = first.detach().clone()
            second = fn(arg)
            require(torch.equal(first, keep), "ownership:earlier-result-changed", f"the tensor returned by {name}({arg_name}) changed when {name} was called again")
            second.add_(1.5)
            if first.data_ptr() == second.data_ptr() and first.numel() > 0:
                require(False, "ownership:results-share-memory", f"two calls of {name}({arg_name}) returned tensors sharing memory")
            third = fn(arg)
            require(torch.equal(third, keep), "ownership:result-edit-leaks", f"editing the tensor returned by {name}({arg_name}) in place changed what {name} returns afterwards")
    return {}


def nontrivial(case):
    return gen.all_biases_nonzero(case) and gen.max_abs_param(case) >= 0.5


def labels(case):
    return gen.arch_label(case)


def grid(tier):
    """Every architecture of the box, with parameters from a deterministic low-discrepancy fill (so the
    enumeration is a pure function of the tier)."""
    out = []
    reps = 2 if tier == "quick" else 20
    for t in ("positive", "complex"):
        for n in range(1, 6):
            for nh in range(1, 7):
                for r in range(reps):
                    out.append(_grid_case(t, n, nh, r))
    return out


def _fill(k, salt, scale):
    # deterministic, irrational-rotation fill in (-scale, scale); never exactly zero
    import math
    return [scale * (2 * ((0.5 + (i + 1) * 0.6180339887498949 + salt * 0.7548776662466927) % 1.0) - 1) or scale / 7 for i in range(k)]


def _grid_case(t, n, nh, r):
    sc = [0.3, 1.0, 3.0, 9.0][r % 4]
    def net(salt):
        w = _fill(n * nh, salt, sc)
        return {"W": [w[i * n:(i + 1) * n] for i in range(nh)], "b": _fill(n, salt + 1, sc), "c": _fill(nh, salt + 2, sc)}
    case = {"type": t, "n": n, "nh": nh, "am": net(3 * r)}
    if t == "complex":
        case["ph"] = net(3 * r + 1)
        case["ph2"] = net(3 * r + 2)
    case["idx"] = [(r * 7 + j * 3) % (2 ** n) for j in range(4)]
    case["row"] = (r * 5 + 1) % (2 ** n)
    return gen.rescale_case(case, 300.0)


SUBCHECKS = [
    Sub("born", check, strategy=strategy, quick=2400, thorough=60000, nontrivial=nontrivial, labels=labels),
    Sub("grid", check, enumerate=grid, nontrivial=nontrivial, labels=labels),
]
