"""C14 - Seeded runs are reproducible and evaluation never alters the model."""
import os
import random
import tempfile

import numpy as np
import torch
from hypothesis import strategies as st

from vf import gen, refmodel as R
from vf.common import Sub, require

PROPERTY = "C14"
RULE = ("(repro) generated programs of up to 8 operations from {construct(type, sizes), reinitialise, sample(k, m), statistics / "
        "System.statistics, fit(batch sizes, k, bases, epochs), save+autoload}; each program is executed twice in one process, each "
        "time right after qucumber.set_random_seed(s), with numpy's and Python's global RNGs re-seeded to other drawn values and "
        "consumed in between; every tensor / float / dict produced and the final parameters must be bit-identical; with a seed "
        "s' != s the initial weights and a 64-bit sample must differ. (readonly) generated programs over every public evaluation "
        "operation (sample, psi/rho/probability/normalization, observable apply/statistics/statistics_from_samples, fidelity/KL/NLL, "
        "rotate_*, save, gradient/positive_phase_gradients/compute_exact_gradients/compute_batch_gradients); after every op the "
        "parameters of every network are bit-identical to the snapshot and requires_grad is still False; mutating ops (fit, "
        "reinitialise, load) refresh the snapshot. Non-trivial = (repro) program contains a fit and a sampling op; (readonly) >= 4 "
        "distinct read-only ops.")
RULE_EXT = ('Extended as built: seed forms (positional / keyword / numpy integer / cpu+gpu flags / defaults), SWAP observables, seed sensitivity also after loading an older file, read-only programs on states with a non-zero phase auxiliary bias. Rounds 5-6: enumerated basis states used as start chains with overwrite=True (the enumeration asked for afterwards is part of the output); the same seeded statistics call with the same caller-held chains twice; boundary seeds 0, 1, 2^32-1.')
RULE_EXT += ' Round 10 (after an exception / long time axis): programs with a fit() aborted by an exception followed by a fit that must train; chains of 33-70 steps sampled twice, and the same seeded long-chain sample / statistics call twice on one object.'
RULE_EXT += ' Round 11 (re-entrant use / feature interactions): fit ops with a busy callback (samples, statistics and a nested fit of another state inside the hooks) remain a function of the seed.'
RULE = RULE + " " + RULE_EXT
ASSUMPTIONS = ["CPU generator only (set_random_seed(cpu=True)); a single process", "bitwise comparison (torch.equal / ==)"]

OBSN = ["SigmaZ", "SigmaX", "NI", "composite", "SWAP"]


def make_obs(name):
    from qucumber.observables import NeighbourInteraction, SigmaX, SigmaZ, SWAP
    return {"SWAP": lambda: SWAP([0]), "SigmaZ": lambda: SigmaZ(), "SigmaX": lambda: SigmaX(), "NI": lambda: NeighbourInteraction(c=1), "composite": lambda: 2 * SigmaZ() - SigmaX()}[name]()


def construct(op):
    from qucumber.nn_states import ComplexWaveFunction, DensityMatrix, PositiveWaveFunction
    t, n, nh = op["type"], op["n"], op["nh"]
    if t == "positive":
        return PositiveWaveFunction(n, nh, gpu=False)
    if t == "complex":
        return ComplexWaveFunction(n, nh, gpu=False)
    return DensityMatrix(n, nh, op["na"], gpu=False)


def train_data(n, N):
    data = torch.tensor([R.index_to_row((3 * k + 1) % (2 ** n), n) for k in range(N)], dtype=torch.double)
    data[1 % N] = 0.0
    bases = np.array([["Z"] * n if k % 2 == 0 else (["X"] + ["Z"] * (n - 1)) for k in range(N)]).reshape(N, n)
    for k in range(N):
        if k % 2 == 1:
            data[k, 0] = 0.0      # rotated site measured with outcome 0 (generically non-negligible amplitude)
    return data, bases


def metric_values(state):
    """fidelity / KL (one target to be rotated; per-basis targets with an explicit list of three bases, one of them twice) / NLL of the
    current state against a fixed target: deterministic numbers that a seeded script prints"""
    from qucumber.utils import training_statistics as TS, unitaries as UN
    n = state.num_visible
    D = 2 ** n
    space = state.generate_hilbert_space()
    re = torch.tensor([1.0 + 0.37 * ((3 * i) % 5) for i in range(D)], dtype=torch.double)
    im = torch.tensor([0.21 * ((2 * i + 1) % 3) - 0.2 for i in range(D)], dtype=torch.double)
    nrm = torch.sqrt((re ** 2 + im ** 2).sum())
    psi_t = torch.stack([re / nrm, im / nrm])
    allb = gen.basis_strings(n)
    bases = ["Z" * n] + [allb[(5 * i + 1) % len(allb)] for i in range(7)] + ["X" * n]      # eight or nine entries, some basis listed twice: the mean runs over the LIST
    if len(state.networks) == 1:
        return [TS.fidelity(state, psi_t, space), TS.KL(state, psi_t, space), TS.NLL(state, space[:3], space)]
    if type(state).__name__ == "DensityMatrix":
        rr = psi_t[0][:, None] * psi_t[0][None, :] + psi_t[1][:, None] * psi_t[1][None, :]
        ri = psi_t[1][:, None] * psi_t[0][None, :] - psi_t[0][:, None] * psi_t[1][None, :]
        tgt = torch.stack([0.7 * rr + 0.3 * torch.eye(D, dtype=torch.double) / D, 0.7 * ri])
        tdict = {b: UN.rotate_rho(state, b, space, rho=tgt) for b in bases}
    else:
        tgt = psi_t
        tdict = {b: UN.rotate_psi(state, b, space, psi=tgt) for b in bases}
    sb = np.array([list(bases[i % 3]) for i in range(3)]).reshape(3, n)
    tdict = dict(tdict)
    return [TS.fidelity(state, tgt, space), TS.KL(state, tgt, space, bases=bases), TS.KL(state, tdict, space, bases=bases), TS.KL(state, tdict, space),
            TS.NLL(state, space[:3], space, sample_bases=sb)]


def params_flat(state):
    return torch.cat([p.data.reshape(-1) for net in state.networks for p in getattr(state, net).parameters()]).clone()


# ------------------------------------------------------------------ part 1
@st.composite
def programs(draw, tier):
    def cons():
        t = draw(st.sampled_from(gen.TYPES))
        return {"op": "construct", "type": t, "n": draw(st.integers(2, 3)), "nh": draw(st.integers(1, 3)), "na": draw(st.integers(1, 2))}
    ops = [cons()]
    for _ in range(draw(st.integers(1, 7))):
        k = draw(st.sampled_from(["construct", "reinit", "sample", "sample", "statistics", "fit", "fit", "save_autoload", "sample_from_space", "make_unitaries", "metrics", "aborted_fit", "long_chains"]))
        if k == "construct":
            ops.append(cons())
        elif k in ("sample", "sample_from_space"):
            ops.append({"op": k, "k": draw(st.integers(0, 3)), "m": draw(st.integers(1, 5))})
        elif k == "long_chains":
            ops.append({"op": k, "k": draw(st.sampled_from([33, 40, 70]))})          # time axis: chains of more than 32 Gibbs steps, sampled twice in a row
        elif k == "statistics":
            ops.append({"op": k, "obs": draw(st.lists(st.sampled_from(OBSN), min_size=1, max_size=2, unique=True)), "system": draw(st.booleans()),
                        "num_samples": draw(st.integers(2, 8)), "num_chains": draw(st.integers(0, 4)), "burn_in": draw(st.integers(0, 2)), "steps": draw(st.integers(0, 2)),
                        "same_chains_twice": draw(st.booleans())})
        elif k == "fit":
            ops.append({"op": k, "N": draw(st.integers(2, 6)), "pbs": draw(st.integers(1, 4)), "nbs": draw(st.one_of(st.none(), st.integers(1, 4))),
                        "k": draw(st.integers(0, 2)), "epochs": draw(st.integers(1, 2)), "busy": draw(st.integers(0, 3)) == 0})
        else:
            ops.append({"op": k})
    seeds = st.one_of(st.sampled_from([0, 1, 2 ** 32 - 1]), st.integers(0, 2 ** 32 - 1), st.integers(0, 2 ** 32 - 1), st.integers(0, 2 ** 32 - 1))   # the boundary seeds are ordinary seeds
    return {"ops": ops, "seed": draw(seeds), "seed2": draw(seeds),
            "np_seeds": [draw(st.integers(0, 2 ** 31 - 1)) for _ in range(2)], "consume": draw(st.integers(0, 5)),
            "seed_form": draw(st.sampled_from(["explicit", "explicit", "default", "cpu_gpu", "gpu_positional", "numpy_int", "keyword"])),
            "shared_evaluator": draw(st.booleans())}


class Diverged(Exception):
    """parameters became non-finite during a generated fit (zero-probability rows): excluded, not judged"""


def seed_lib(seed, form):
    """the documented ways of asking for a seeded CPU generator (gpu=True is legal on a host without CUDA)"""
    import warnings
    import qucumber
    with warnings.catch_warnings():
        warnings.simplefilter("ignore")
        if form == "default":
            qucumber.set_random_seed(seed)
        elif form == "cpu_gpu":
            qucumber.set_random_seed(seed, cpu=True, gpu=True, quiet=True)
        elif form == "gpu_positional":
            qucumber.set_random_seed(seed, True, True, True)
        elif form == "numpy_int":
            qucumber.set_random_seed(np.int64(seed % (2 ** 62)), quiet=True)       # e.g. a seed taken from a numpy array
        elif form == "keyword":
            qucumber.set_random_seed(seed=seed, cpu=True)
        else:
            qucumber.set_random_seed(seed, cpu=True, gpu=False, quiet=True)


def run_program(ops, seed, tmp, form="explicit", shared_cb=None):
    import qucumber
    from qucumber.observables import System
    seed_lib(seed, form)
    outs = []
    state = None
    last_construct = None
    for i, op in enumerate(ops):
        k = op["op"]
        if k == "construct":
            last_construct = op
            state = construct(op)
            outs.append(params_flat(state))
        elif k == "reinit":
            # reinitialising a (possibly trained / loaded) state consumes the generator exactly like constructing a fresh one and gives the same
            # parameters: the seeded outcome does not depend on the object's history
            rng0 = torch.get_rng_state()
            state.reinitialize_parameters()
            got = params_flat(state)
            rng1 = torch.get_rng_state()
            torch.set_rng_state(rng0)
            fresh = params_flat(construct(last_construct))
            require(torch.equal(got, fresh) and torch.equal(torch.get_rng_state(), rng1), "not-reproducible:reinitialise-vs-fresh",
                    "under the same generator state reinitialize_parameters() of a used state gives other parameters (or consumes other random numbers) than constructing a fresh state")
            outs.append(got)
        elif k == "sample":
            outs.append(state.sample(op["k"], num_samples=op["m"]).clone())
        elif k == "sample_from_space":
            # the enumerated basis states used as start chains and advanced in place (caller-owned tensor); the enumeration asked for
            # afterwards is part of the output
            sp = state.generate_hilbert_space()
            first = sp.clone()
            outs.append([first, state.sample(max(op["k"], 1), initial_state=sp, overwrite=True).clone(), state.generate_hilbert_space()])
        elif k == "statistics":
            obs = [make_obs(o) for o in op["obs"]]
            kw = dict(num_samples=op["num_samples"], num_chains=op["num_chains"], burn_in=op["burn_in"], steps=op["steps"])
            if op["system"]:
                outs.append(System(*obs).statistics(state, **kw))
            else:
                outs.append([o.statistics(state, **kw) for o in obs])
            if op.get("same_chains_twice"):
                # the same seeded call with the same arguments (start chains the caller holds, overwrite left at its default) twice
                x = state.sample(1, num_samples=max(op["num_chains"], 1))
                kw2 = dict(kw, initial_state=x)
                seed_lib(seed + 17, form)
                r1 = System(*obs).statistics(state, **kw2) if op["system"] else [o.statistics(state, **kw2) for o in obs]
                seed_lib(seed + 17, form)
                r2 = System(*obs).statistics(state, **kw2) if op["system"] else [o.statistics(state, **kw2) for o in obs]
                require(deep_equal(r1, r2), "not-reproducible:statistics-same-arguments",
                        "statistics called twice with the same seed and the same arguments (start chains given, overwrite=False) gave different results")
                # ... and the combination caller-supplied chains + no burn-in + several draws per chain
                x_keep = x.clone()
                kw3 = dict(num_samples=3 * x.shape[0], num_chains=x.shape[0], burn_in=0, steps=max(op["steps"], 1), initial_state=x)
                seed_lib(seed + 19, form)
                r3 = System(*obs).statistics(state, **kw3) if op["system"] else [o.statistics(state, **kw3) for o in obs]
                seed_lib(seed + 19, form)
                r4 = System(*obs).statistics(state, **kw3) if op["system"] else [o.statistics(state, **kw3) for o in obs]
                require(deep_equal(r3, r4) and torch.equal(x, x_keep), "not-reproducible:statistics-same-arguments",
                        "statistics called twice with the same seed, the same start chains (overwrite left at its default), burn_in=0 and three draws per chain gave different results (or changed the caller's chains)")
                outs[-1] = [outs[-1], r1, r3]
        elif k == "fit":
            data, bases = train_data(state.num_visible, op["N"])
            kw = {"input_bases": bases} if len(state.networks) > 1 else {}
            if shared_cb is not None:
                kw["callbacks"] = [shared_cb]          # one evaluator object used by every fit of BOTH seeded runs (history not cleared in between)
            if op.get("busy"):
                # re-entrant use: a callback that evaluates, samples, takes statistics and trains ANOTHER state from inside the hooks of this fit;
                # the whole is still a function of the seed alone
                kw["callbacks"] = list(kw.get("callbacks", [])) + [gen.busy_callback()]
            state.fit(data, epochs=op["epochs"], pos_batch_size=op["pbs"], neg_batch_size=op["nbs"], k=op["k"], lr=0.05, **kw)
            if not bool(torch.isfinite(params_flat(state)).all()):
                raise Diverged()
            outs.append(params_flat(state))
        elif k == "metrics":
            outs.append(metric_values(state))
        elif k == "aborted_fit":
            # a training run aborted by an exception from a user callback (caught by the script); what follows stays reproducible and the
            # fits that follow really train
            data, bases = train_data(state.num_visible, 4)
            gen.abort_a_fit(state, data, bases if len(state.networks) > 1 else None, hook="on_epoch_end")
            before_ = params_flat(state)
            # (weight decay: every non-zero weight moves whatever the data gradient is; a CD gradient that is exactly zero is legitimate)
            state.fit(data, epochs=1, pos_batch_size=2, lr=0.05, optimizer=torch.optim.SGD, optimizer_args={"weight_decay": 0.5}, **({"input_bases": bases} if len(state.networks) > 1 else {}))
            require(not torch.equal(params_flat(state), before_) or float(before_.abs().max()) == 0.0, "fit-after-aborted-fit:no-training", "a fit() that follows a fit() aborted by an exception (caught) did not change any parameter")
            outs.append(params_flat(state))
        elif k == "long_chains":
            # the same seeded long-chain call twice on this one object (same arguments, parameters untouched): a function of the seed alone
            res_ = []
            for _ in range(2):
                seed_lib(seed + 23, form)
                res_.append([state.sample(op["k"], num_samples=3).clone(), make_obs("SigmaZ").statistics(state, num_samples=6, num_chains=3, burn_in=op["k"], steps=1)])
            require(deep_equal(res_[0], res_[1]), "not-reproducible:long-chains-same-arguments",
                    f"sample({op['k']}, num_samples=3) / statistics(burn_in={op['k']}) called twice on one object with the same seed and arguments gave different results")
            outs.append(res_[0])
            outs.append([state.sample(op["k"], num_samples=3).clone(), state.sample(op["k"], num_samples=3).clone()])
        elif k == "make_unitaries":
            # building a dictionary of unitaries (operators given as nested lists / arrays / tensors) is a pure function of its arguments: what
            # is sampled afterwards must not depend on it having happened
            from qucumber.utils import unitaries as UN
            hl = [[[0.6, 0.8], [0.8, -0.6]], [[0.0, 0.0], [0.0, 0.0]]]
            d_ = UN.create_dict(H=hl, Q=np.array(hl), W=torch.tensor(hl, dtype=torch.double))
            outs.append({k_: v_.clone() for k_, v_ in d_.items()})
        elif k == "save_autoload":
            fp = os.path.join(tmp, f"m{i}.pt")
            state.save(fp, {"i": i})
            state = type(state).autoload(fp, gpu=False)
            outs.append(params_flat(state))
    outs.append(params_flat(state))
    return outs


def deep_equal(a, b):
    if isinstance(a, torch.Tensor):
        return isinstance(b, torch.Tensor) and a.shape == b.shape and torch.equal(a, b)
    if isinstance(a, dict):
        return isinstance(b, dict) and a.keys() == b.keys() and all(deep_equal(a[k], b[k]) for k in a)
    if isinstance(a, (list, tuple)):
        return len(a) == len(b) and all(deep_equal(x, y) for x, y in zip(a, b))
    if isinstance(a, float) and a != a:
        return b != b
    return a == b


def check_repro(c):
    import qucumber
    with tempfile.TemporaryDirectory(prefix="vf_c14_") as tmp:
        np.random.seed(c["np_seeds"][0]); random.seed(c["np_seeds"][0])
        try:
            shared_cb = None
            if c.get("shared_evaluator"):
                from qucumber.callbacks import ObservableEvaluator
                from qucumber.observables import SigmaZ
                shared_cb = ObservableEvaluator(1, [SigmaZ()], num_samples=4, num_chains=2, burn_in=1, steps=1)
            a = run_program(c["ops"], c["seed"], tmp, c.get("seed_form", "explicit"), shared_cb)
        except Diverged:
            return {"nontrivial": False, "excluded": 1, "labels": ["diverged"]}
        np.random.seed(c["np_seeds"][1]); random.seed(c["np_seeds"][1])
        for _ in range(c["consume"]):
            np.random.rand(3); random.random(); np.random.permutation(5)
        torch.rand(1 + c["consume"])      # the torch stream is somewhere else as well before the second seeding call
        b = run_program(c["ops"], c["seed"], tmp, c.get("seed_form", "explicit"), shared_cb)
    for i, (x, y) in enumerate(zip(a, b)):
        what = c["ops"][i]["op"] if i < len(c["ops"]) else "final parameters"
        require(deep_equal(x, y), f"not-reproducible:{what}", f"output #{i} ({what}) differs between two runs seeded identically through set_random_seed({c['seed']})",
                first=str(x)[:300], second=str(y)[:300])
    if c["seed2"] != c["seed"]:
        seed_lib(c["seed"], c.get("seed_form", "explicit"))
        s1 = construct(dict(c["ops"][0], n=3, nh=3))
        w1, d1 = params_flat(s1), s1.sample(1, num_samples=64)
        seed_lib(c["seed2"], c.get("seed_form", "explicit"))
        s2 = construct(dict(c["ops"][0], n=3, nh=3))
        w2, d2 = params_flat(s2), s2.sample(1, num_samples=64)
        require(not torch.equal(w1, w2), "seed-ignored:init", f"different seeds {c['seed']} / {c['seed2']} gave identical initial weights")
        # ... also after loading parameters from a file written earlier (at some other point of the random stream)
        import io
        buf = io.BytesIO()
        torch.manual_seed(4242)
        donor = construct(dict(c["ops"][0], n=3, nh=3))
        donor.sample(1, num_samples=3)
        donor.save(buf)
        draws = []
        for sd in (c["seed"], c["seed2"], c["seed"]):
            seed_lib(sd, c.get("seed_form", "explicit"))
            tgt = construct(dict(c["ops"][0], n=3, nh=3))
            buf.seek(0)
            tgt.load(buf)
            draws.append(tgt.sample(1, num_samples=64))
        require(torch.equal(draws[0], draws[2]), "not-reproducible:sample-after-load", "seed, construct, load(file), sample is not reproducible")
        require(not torch.equal(draws[0], draws[1]), "seed-ignored:sample-after-load", "after load(file) two different seeds give identical samples (the file overrides the seeded random stream)")
        require(not torch.equal(d1, d2), "seed-ignored:samples", "different seeds gave identical 192-bit samples")
    kinds = {o["op"] for o in c["ops"]}
    return {"nontrivial": "fit" in kinds and bool(kinds & {"sample", "statistics"}), "labels": sorted("op=" + k for k in kinds)}


# ------------------------------------------------------------------ part 2
RO = ["sample", "sample_start", "psi_or_rho", "probability", "normalization", "obs_apply", "obs_statistics", "obs_from_samples", "fidelity", "KL", "NLL",
      "rotate", "rotate_probs", "save", "gradient", "positive_phase", "exact_gradients", "batch_gradients"]
MUT = ["fit", "reinit", "load"]


@st.composite
def ro_programs(draw, tier):
    sc = draw(gen.state_case(n=(2, 3), nh=(1, 3), na=(1, 2), scales=[0.05, 0.5, 2.0], bound=30.0))
    ops = [{"op": draw(st.sampled_from(RO + RO + MUT)), "obs": draw(st.sampled_from(OBSN)), "basis": draw(gen.basis_string(sc["n"])),
            "idx": draw(gen.index_list(sc["n"], 2, 4)), "k": draw(st.integers(0, 2)), "overwrite": draw(st.booleans())} for _ in range(draw(st.integers(2, 10)))]
    c = {"state": sc, "ops": ops, "seed": draw(st.integers(0, 2 ** 31 - 1))}
    if sc["type"] == "density" and draw(st.booleans()):
        # a user may put ANY values into the parameters (e.g. by loading a file); read-only operations must not touch them
        c["ph_aux_bias"] = draw(gen.flist(sc["na"], 2.0))
    return c


def check_readonly(c):
    import qucumber
    from qucumber.utils import training_statistics as TS, unitaries as UN
    sc = c["state"]
    n, t = sc["n"], sc["type"]
    state = gen.build_state(sc)
    if c.get("ph_aux_bias"):
        state.rbm_ph.aux_bias.data.copy_(torch.tensor(c["ph_aux_bias"], dtype=torch.double))
    qucumber.set_random_seed(c["seed"], cpu=True, gpu=False, quiet=True)
    space = state.generate_hilbert_space()
    snap = params_flat(state)
    ud = R.default_unitaries()
    kinds = set()
    with tempfile.TemporaryDirectory(prefix="vf_c14_") as tmp:
        for i, op in enumerate(c["ops"]):
            k = op["op"]
            samples = R.rows_from_indices(op["idx"], n)
            brow = np.array([list(op["basis"])] * len(op["idx"]))
            brow[0, :] = "Z"
            B = {"bases_batch": brow} if t != "positive" else {}
            if k == "sample":
                state.sample(op["k"], num_samples=3)
            elif k == "sample_start":
                state.sample(op["k"], initial_state=samples, overwrite=op["overwrite"])
            elif k == "psi_or_rho":
                state.rho(space, space) if t == "density" else (state.psi(space), state.amplitude(space), state.phase(space))
            elif k == "probability":
                state.probability(space, state.normalization(space))
            elif k == "normalization":
                state.normalization(space); state.compute_normalization(space)
            elif k == "obs_apply":
                make_obs(op["obs"]).apply(state, samples)
            elif k == "obs_statistics":
                make_obs(op["obs"]).statistics(state, num_samples=4, num_chains=2, burn_in=1, steps=1)
            elif k == "obs_from_samples":
                make_obs(op["obs"]).statistics_from_samples(state, samples)
            elif k in ("fidelity", "KL"):
                if t == "density":
                    tgt = torch.eye(2 ** n, dtype=R.C128) / 2 ** n
                else:
                    tgt = torch.ones(2 ** n, dtype=R.C128) / np.sqrt(2 ** n)
                if k == "fidelity":
                    TS.fidelity(state, R.c_to_lib(tgt), space)
                else:
                    TS.KL(state, R.c_to_lib(tgt), space, bases=None if t == "positive" else [op["basis"]])
            elif k == "NLL":
                TS.NLL(state, samples, space) if t == "positive" else TS.NLL(state, samples, space, sample_bases=np.array([["Z"] * n] * len(op["idx"])))
            elif k == "rotate":
                if t == "density":
                    UN.rotate_rho(state, op["basis"], space)
                else:
                    UN.rotate_psi(state, op["basis"], space, unitaries=UN.create_dict())
            elif k == "rotate_probs":
                if t == "density":
                    UN.rotate_rho_probs(state, op["basis"], samples)
                else:
                    UN.rotate_psi_inner_prod(state, op["basis"], samples, unitaries=UN.create_dict())
            elif k == "save":
                state.save(os.path.join(tmp, "ro.pt"), {"i": i})
            elif k == "gradient":
                state.gradient(samples, **({"bases": brow} if t != "positive" else {}))
            elif k == "positive_phase":
                state.positive_phase_gradients(samples, **B)
            elif k == "exact_gradients":
                state.compute_exact_gradients(samples, space, **B)
            elif k == "batch_gradients":
                state.compute_batch_gradients(op["k"], samples, samples.clone(), *([brow] if t != "positive" else []))
            elif k == "fit":
                data, bases = train_data(n, 4)
                guard, div = gen.divergence_guard()
                state.fit(data, epochs=1, pos_batch_size=2, lr=0.05, callbacks=[guard], **({"input_bases": bases} if t != "positive" else {}))
                if div[0]:
                    return {"nontrivial": False, "excluded": 1, "labels": ["diverged"]}
                require(not torch.equal(params_flat(state), snap) or True, "x", "x")
                snap = params_flat(state)
            elif k == "reinit":
                state.reinitialize_parameters()
                snap = params_flat(state)
            elif k == "load":
                fp = os.path.join(tmp, "ld.pt")
                state.save(fp)
                state.load(fp)
                require(torch.equal(params_flat(state), snap), "load-after-save-changed-params", "save followed by load changed the parameters")
                snap = params_flat(state)
            if k in RO:
                kinds.add(k)
                require(torch.equal(params_flat(state), snap), f"readonly-op-changed-params:{k}", f"the read-only operation {k!r} changed a model parameter")
            for net in state.networks:
                for pn, p in getattr(state, net).named_parameters():
                    require(p.requires_grad is False, "requires_grad", f"{net}.{pn}.requires_grad became True after {k!r}")
    return {"nontrivial": len(kinds) >= 4, "labels": [f"type={t}"] + sorted("op=" + k for k in kinds)}


def digest(x):
    import hashlib
    if isinstance(x, torch.Tensor):
        return hashlib.sha1(x.detach().cpu().contiguous().numpy().tobytes()).hexdigest()[:16]
    if isinstance(x, dict):
        return {str(k): digest(v) for k, v in sorted(x.items(), key=lambda kv: str(kv[0]))}
    if isinstance(x, (list, tuple)):
        return [digest(v) for v in x]
    if isinstance(x, float):
        return x.hex()
    return repr(x)


def check_hashseed(c):
    """The same seeded program in fresh interpreters that differ only in PYTHONHASHSEED (str hashes, hence the iteration order of sets of
    strings, differ between them): every output must be bit-identical.  The runner itself pins PYTHONHASHSEED=0, so this is the only place
    where an iteration-order dependence of a result can show."""
    import json, subprocess, sys
    with tempfile.TemporaryDirectory(prefix="vf_c14h_") as tmp:
        cf = os.path.join(tmp, "case.json")
        json.dump(c, open(cf, "w"))
        outs = []
        for hs in ("1", "2", "3"):
            r = subprocess.run([sys.executable, "-m", "vf.props.c14", cf, os.path.join(tmp, "w" + hs)], capture_output=True, text=True,
                               env=dict(os.environ, PYTHONHASHSEED=hs))
            if r.returncode != 0 or not r.stdout.strip():
                raise RuntimeError(f"child interpreter failed (exit {r.returncode}): {r.stderr[-800:]}")
            outs.append(json.loads(r.stdout.strip().splitlines()[-1]))
        if any(o == "DIVERGED" for o in outs):
            return {"nontrivial": False, "excluded": 1, "labels": ["diverged"]}
        for hs, o in zip(("2", "3"), outs[1:]):
            for i, (x, y) in enumerate(zip(outs[0], o)):
                what = c["ops"][i]["op"] if i < len(c["ops"]) else "final parameters"
                require(x == y, f"not-reproducible:hash-seed:{what}", f"output #{i} ({what}) of the same seeded program differs between interpreters started with PYTHONHASHSEED=1 and ={hs}",
                        first=str(x)[:200], second=str(y)[:200])
    kinds = {o["op"] for o in c["ops"]}
    return {"nontrivial": "metrics" in kinds or "fit" in kinds, "labels": sorted("op=" + k for k in kinds)}


def _child_main(argv):
    import json
    c = json.load(open(argv[1]))
    os.makedirs(argv[2], exist_ok=True)
    torch.set_num_threads(1)
    try:
        out = run_program(c["ops"], c["seed"], argv[2], c.get("seed_form", "explicit"))
    except Diverged:
        print(json.dumps("DIVERGED"))
        return 0
    print(json.dumps([digest(o) for o in out]))
    return 0


SUBCHECKS = [
    Sub("repro", check_repro, strategy=lambda tier: programs(tier), quick=240, thorough=3000, per_shard=10),
    Sub("readonly", check_readonly, strategy=lambda tier: ro_programs(tier), quick=320, thorough=4000, per_shard=10),
    # every program of this sub-check trains once and evaluates the metrics (the operations whose results pass through dicts / sets of strings)
    Sub("hashseed", check_hashseed, strategy=lambda tier: programs(tier).map(lambda c: dict(c, ops=c["ops"][:1] + [
        {"op": "fit", "N": 5, "pbs": 2, "nbs": 3, "k": 1, "epochs": 1}, {"op": "metrics"}] + c["ops"][1:4] + [{"op": "metrics"}])), quick=24, thorough=160, per_shard=3),
]


if __name__ == "__main__":
    import sys
    sys.exit(_child_main(sys.argv))
