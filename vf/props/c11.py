"""C11 - Saving and reloading reproduces the state exactly and has no side effects."""
import copy
import os
import tempfile

import numpy as np
import torch
from hypothesis import strategies as st

from vf import gen, refmodel as R
from vf.common import Sub, require, expect_raises

PROPERTY = "C11"
RULE = ("Generated op programs (model-based testing, the whole program shrinks as one value): 1-3 models (three state types, "
        "n 1..4, nh/na 1..4 drawn independently of n, non-zero biases, default or user-extended unitary dictionary), 1-3 metadata "
        "objects (None, {}, flat, nested lists/dicts/tuples, tensor-valued), 1-3 files; ops = randomise in place | reinitialise (new parameter objects) | train one epoch | save | "
        "save again with the SAME metadata object | load into a compatible model (fresh / fresh with an extra user unitary / already used) | autoload | save with a reserved key | "
        "2-epoch fit with a ModelSaver whose metadata is that same dict. Model oracle: python dict file -> (type, parameter clones, "
        "unitary-dict clones, deep copy of the metadata). Invariants after every op: saving changes neither parameters, unitary "
        "dict nor the metadata object; the file holds exactly networks + metadata (+ unitary_dict); load/autoload give torch.equal "
        "parameters, same sizes, same dictionary; metadata round-trips. Non-trivial = a second save with the same non-empty "
        "metadata object for a state with a unitary dictionary, or an autoload of a model with nh != nv and non-zero biases.")
RULE_EXT = ('Extended as built: further ops drift_restore (train, load back, compare), load_reinit_save, load into self, save locations as str / pathlib.Path / open file object, bare dictionary files, tensor metadata of several dtypes. Rounds 5-6: a stream holding an earlier record, positioned at the wanted record; identity (not only equality) of every object inside the metadata passed by the caller after save; reserved names refused whatever the value.')
RULE_EXT += ' Round 10 (after an exception / long time axis): ModelSaver(period 3) over epoch numbers 255..270 (resumed run): a file for every due epoch, the last reloads to the final parameters.'
RULE_EXT += ' Round 11 (re-entrant use / feature interactions): drift_restore loads the same unchanged file a second and third time after further in-place drift and requires a model auto-constructed from it to be independent.'
RULE = RULE + " " + RULE_EXT
ASSUMPTIONS = ["metadata values are of kinds the installed torch's safe loader accepts (python scalars, str, None, list, tuple, dict, tensors)", "CPU only"]

KEYS = ["a", "b", "lr", "epoch", "note", "k1"]


def meta_values():
    leaf = st.one_of(st.none(), st.booleans(), st.integers(-5, 5), st.floats(-2, 2, allow_nan=False, width=64), st.sampled_from(["", "x", "run-1"]),
                     st.lists(st.floats(-1, 1, allow_nan=False, width=32), min_size=1, max_size=3).map(lambda v: {"__tensor__": v}),
                     st.tuples(st.lists(st.integers(-3, 200), min_size=1, max_size=3), st.sampled_from(["float32", "int64", "uint8", "bool", "int32"])).map(
                         lambda t: {"__tensor__": [abs(x) % 200 for x in t[0]], "dtype": t[1]}))
    return st.recursive(leaf, lambda ch: st.one_of(st.lists(ch, max_size=3), st.lists(ch, max_size=2).map(lambda v: {"__tuple__": v}),
                                                    st.dictionaries(st.sampled_from(KEYS), ch, max_size=2)), max_leaves=6)


def metadata_obj():
    typed = st.tuples(st.lists(st.integers(0, 199), min_size=1, max_size=3), st.sampled_from(["float32", "int64", "uint8", "bool", "int32"])).map(
        lambda t: {"__tensor__": t[0], "dtype": t[1]})
    # the last form: a TOP-LEVEL tensor that is not float64 (counters, samples, flags) next to ordinary entries
    return st.one_of(st.none(), st.just({}), st.dictionaries(st.sampled_from(KEYS), meta_values(), min_size=1, max_size=3),
                     st.tuples(st.sampled_from(KEYS), typed, st.dictionaries(st.sampled_from(KEYS), meta_values(), max_size=2)).map(lambda t: dict(t[2], **{t[0]: t[1]})))


def decode_meta(x):
    if isinstance(x, dict):
        if set(x.keys()) == {"__tensor__"}:
            return torch.tensor(x["__tensor__"], dtype=torch.float64)
        if set(x.keys()) == {"__tensor__", "dtype"}:
            return torch.tensor(x["__tensor__"]).to(getattr(torch, x["dtype"]))
        if set(x.keys()) == {"__tuple__"}:
            return tuple(decode_meta(v) for v in x["__tuple__"])
        return {k: decode_meta(v) for k, v in x.items()}
    if isinstance(x, list):
        return [decode_meta(v) for v in x]
    return x


def meta_eq(a, b):
    if isinstance(a, torch.Tensor) or isinstance(b, torch.Tensor):
        return isinstance(a, torch.Tensor) and isinstance(b, torch.Tensor) and a.dtype == b.dtype and torch.equal(a, b)
    if type(a) != type(b):
        return False
    if isinstance(a, dict):
        return a.keys() == b.keys() and all(meta_eq(a[k], b[k]) for k in a)
    if isinstance(a, (list, tuple)):
        return len(a) == len(b) and all(meta_eq(x, y) for x, y in zip(a, b))
    return a == b


def identity_map(x, path="md"):
    """(path, id) of every container and tensor reachable in a metadata object: saving must leave the caller's objects in place, not only equal"""
    out = []
    if isinstance(x, (dict, list, tuple, torch.Tensor)):
        out.append((path, id(x)))
    if isinstance(x, dict):
        for k in x:
            out += identity_map(x[k], f"{path}[{k!r}]")
    elif isinstance(x, (list, tuple)):
        for i, v in enumerate(x):
            out += identity_map(v, f"{path}[{i}]")
    return out


@st.composite
def programs(draw, tier):
    models = [draw(gen.state_case(n=(1, 4), nh=(1, 4), na=(1, 4), scales=[0.05, 0.5, 2.0], bound=50.0, unitaries=True)) for _ in range(draw(st.integers(1, 3)))]
    for m in models:
        m["alt"] = draw(st.integers(0, 2 ** 16))
        m["bare_dict"] = draw(st.integers(0, 3)) == 0
    metas = [draw(metadata_obj()) for _ in range(draw(st.integers(1, 3)))]
    nfiles = draw(st.integers(1, 3))
    ops = []
    for _ in range(draw(st.integers(2, 12 if tier == "quick" else 24))):
        kind = draw(st.sampled_from(["save", "save", "save_again", "load", "load", "autoload", "randomise", "reinit", "train", "reserved", "model_saver", "drift_restore", "load_reinit_save", "overwrite_file"]))
        op = {"op": kind, "m": draw(st.integers(0, len(models) - 1)), "f": draw(st.integers(0, nfiles - 1)), "md": draw(st.integers(0, len(metas) - 1)),
              "loc": draw(st.sampled_from(["str", "str", "path", "fileobj", "fileobj_offset"]))}     # documented: "location: str or file"
        if kind == "reserved":
            op["key"] = draw(st.sampled_from(["rbm_am", "rbm_ph", "unitary_dict"]))
        if kind == "load":
            op["target"] = draw(st.sampled_from(["fresh", "fresh_extra_unitary", "used", "self", "self", "shared_dict"]))
        if kind in ("train", "model_saver", "randomise"):
            op["seed"] = draw(st.integers(0, 2 ** 31 - 1))
        ops.append(op)
    return {"models": models, "metas": metas, "nfiles": nfiles, "ops": ops}


def params_of(state):
    return {net: {k: v.clone() for k, v in getattr(state, net).state_dict().items()} for net in state.networks}


def udict_of(state):
    return {k: v.clone() for k, v in state.unitary_dict.items()} if hasattr(state, "unitary_dict") and "unitary_dict" in vars(state) else None


def same_params(a, b):
    return a.keys() == b.keys() and all(a[n].keys() == b[n].keys() and all(torch.equal(a[n][k], b[n][k]) for k in a[n]) for n in a)


def same_udict(a, b):
    if a is None or b is None:
        return a is None and b is None
    return a.keys() == b.keys() and all(torch.equal(a[k], b[k]) for k in a)


def tiny_data(state, n):
    data = torch.tensor([R.index_to_row(k % (2 ** n), n) for k in range(4)], dtype=torch.double)
    data[1] = 0.0      # rotated rows use the all-zeros outcome (generically non-negligible amplitude)
    data[3] = 0.0
    if "X" in getattr(state, "unitary_dict", {"X": 1}):
        bases = np.array([["Z"] * n, ["X"] * n, ["Z"] * n, ["Y"] + ["Z"] * (n - 1)])
    else:
        bases = np.array([["Z"] * n, ["H"] * n, ["Z"] * n, ["H"] + ["Z"] * (n - 1)])
    return data, bases


def fresh_like(spec, how="fresh"):
    """A compatible load target: freshly built; or built with a user dictionary holding an extra key 'R' (load must REPLACE
    the dictionary, not merge into it); or already 'used' (evaluated and saved once before the load)."""
    from qucumber.nn_states import ComplexWaveFunction, DensityMatrix, PositiveWaveFunction
    from qucumber.utils import unitaries
    t, n, nh = spec["type"], spec["n"], spec["nh"]
    ud = unitaries.create_dict(R=R.c_to_lib(R.unitary_from_angles(0.3, -0.2, 0.7, 0.1))) if how == "fresh_extra_unitary" else None
    if t == "positive":
        s = PositiveWaveFunction(n, nh, gpu=False)
    elif t == "complex":
        s = ComplexWaveFunction(n, nh, unitary_dict=ud, gpu=False)
    else:
        s = DensityMatrix(n, nh, spec["na"], unitary_dict=ud, gpu=False)
    if how == "used":
        sp = s.generate_hilbert_space()
        s.normalization(sp); s.probability(sp); s.sample(1, num_samples=2)
        import io
        s.save(io.BytesIO())
    return s


def check(case):
    import qucumber
    from qucumber.callbacks import ModelSaver
    from qucumber.nn_states import ComplexWaveFunction, DensityMatrix, PositiveWaveFunction
    cls = {"positive": PositiveWaveFunction, "complex": ComplexWaveFunction, "density": DensityMatrix}
    states = [gen.build_state(m) for m in case["models"]]
    for m, st_ in zip(case["models"], states):
        if m.get("bare_dict") and m["type"] != "positive":
            # a hand-built dictionary that does not contain all the defaults (legitimate: only 'Z' is special to the library)
            st_.unitary_dict = {"Z": st_.unitary_dict["Z"].clone(), "H": R.c_to_lib(R.unitary_from_angles(0.4, 0.1, 0.9, -0.3))}
    metas = [decode_meta(m) for m in case["metas"]]
    files = {}     # file index -> model record
    labels = set()
    nt = False
    saves_seen = set()
    with tempfile.TemporaryDirectory(prefix="vf_c11_") as tmp:
        path = lambda j: os.path.join(tmp, f"model_{j}.pt")

        def with_loc(j, mode, form, fn):
            """call fn(location) with the location given as str, pathlib.Path or an open binary file object"""
            import pathlib
            if form == "path":
                return fn(pathlib.Path(path(j)))
            if form == "fileobj_offset" and mode == "rb":
                # a stream that holds an EARLIER record (same layout, every tensor shifted by one) before this one, positioned at the
                # start of the wanted record: reading starts where the caller positioned the stream
                import io

                def shift(o):
                    if isinstance(o, torch.Tensor):
                        return o + 1 if o.dtype.is_floating_point else o.clone()
                    if isinstance(o, dict):
                        return type(o)((k, shift(v)) for k, v in o.items())
                    return o
                raw = open(path(j), "rb").read()
                pre = io.BytesIO()
                torch.save(shift(torch.load(io.BytesIO(raw), weights_only=False)), pre)
                stream = io.BytesIO(pre.getvalue() + raw)
                stream.seek(len(pre.getvalue()))
                return fn(stream)
            if form in ("fileobj", "fileobj_offset"):
                with open(path(j), mode) as fh:
                    return fn(fh)
            return fn(path(j))

        for op in case["ops"]:
            mi, fj = op["m"], op["f"]
            spec, state, md = case["models"][mi], states[mi], metas[op["md"]]
            has_ud = spec["type"] != "positive"
            kind = op["op"]
            if kind == "randomise":
                qucumber.set_random_seed(op["seed"], cpu=True, gpu=False, quiet=True)
                for net in state.networks:
                    for p in getattr(state, net).parameters():
                        p.data.copy_(torch.randn_like(p))
            elif kind == "load_reinit_save":
                # a fixed four-step history on one model: save -> load the file back -> reinitialise -> save again -> autoload the second file
                f1, f2 = os.path.join(tmp, f"lrs1_{mi}.pt"), os.path.join(tmp, f"lrs2_{mi}.pt")
                state.save(f1)
                state.load(f1)
                state.reinitialize_parameters()
                want_p, want_u = params_of(state), udict_of(state)
                state.save(f2, md)
                back = cls[spec["type"]].autoload(f2, gpu=False)
                require(same_params(want_p, params_of(back)), "autoload:parameters:after-load-reinit-save",
                        "a file saved after load -> reinitialise does not hold the model's current parameters")
                require(same_udict(want_u, udict_of(back)), "autoload:unitary-dict:after-load-reinit-save", "unitary dictionary lost in load -> reinitialise -> save")
                labels.add("load_reinit_save")
            elif kind == "overwrite_file":
                # one path, written twice: save -> autoload it -> other parameters -> save to the SAME path -> load / autoload that path again:
                # what comes back is what the file holds now
                fp = os.path.join(tmp, f"ow_{mi}.pt")
                state.save(fp, md)
                first = cls[spec["type"]].autoload(fp, gpu=False)
                for net in state.networks:
                    for p_ in getattr(state, net).parameters():
                        p_.data.mul_(-0.75).add_(0.125)
                new_p = params_of(state)
                state.save(fp, md)
                first.load(fp)
                again = cls[spec["type"]].autoload(fp, gpu=False)
                tgt2 = cls[spec["type"]].autoload(fp, gpu=False)
                tgt2.reinitialize_parameters()
                tgt2.load(fp)
                require(same_params(new_p, params_of(first)) and same_params(new_p, params_of(again)) and same_params(new_p, params_of(tgt2)), "load:stale-after-overwrite",
                        "after a file was overwritten by a second save, load()/autoload() of that path returned something other than the file's current contents")
                labels.add("overwrite_file")
            elif kind == "drift_restore":
                # save, let every parameter drift by a relative 1e-9 (e.g. a tiny update), restore from the file: bit-identical again
                fp = os.path.join(tmp, f"drift_{mi}.pt")
                state.save(fp)
                want_p = params_of(state)
                for net in state.networks:
                    for p_ in getattr(state, net).parameters():
                        p_.data.mul_(1 + 1e-9).add_(1e-12)
                state.load(fp)
                require(same_params(want_p, params_of(state)), "load:not-bit-identical-after-tiny-drift",
                        "load() did not restore the saved parameters bit for bit into a model whose parameters had drifted by ~1e-9")
                # ... and once more from the SAME unchanged file: drift again (in place), load again; then a second model auto-constructed from
                # that file must be independent of the first (an in-place change of one does not reach the other)
                for p_ in (q_ for net in state.networks for q_ in getattr(state, net).parameters()):
                    p_.data.mul_(1 - 1e-9).sub_(1e-12)
                state.load(fp)
                require(same_params(want_p, params_of(state)), "load:not-bit-identical-second-load-of-unchanged-file",
                        "a second load() of the same unchanged file (after the parameters had drifted in place again) did not restore the saved parameters bit for bit")
                twin_ = cls[spec["type"]].autoload(fp, gpu=False)
                for p_ in (q_ for net in state.networks for q_ in getattr(state, net).parameters()):
                    p_.data.add_(0.25)
                require(same_params(want_p, params_of(twin_)), "autoload:aliases-another-model",
                        "a model auto-constructed from a file changes when another model loaded from the same file is updated in place")
                state.load(fp)
                require(same_params(want_p, params_of(state)), "load:not-bit-identical-second-load-of-unchanged-file", "a third load() of the same unchanged file did not restore the saved parameters")
                labels.add("drift_restore")
            elif kind == "reinit":
                state.reinitialize_parameters()      # creates NEW parameter objects (unlike the in-place 'randomise')
                labels.add("reinit")
            elif kind == "train":
                qucumber.set_random_seed(op["seed"], cpu=True, gpu=False, quiet=True)
                data, bases = tiny_data(state, spec["n"])
                kw = {"input_bases": bases} if has_ud else {}
                guard, div = gen.divergence_guard()
                state.fit(data, epochs=1, pos_batch_size=2, lr=0.05, callbacks=[guard], **kw)
                if div[0]:
                    return {"nontrivial": False, "excluded": 1, "labels": ["diverged"]}
            elif kind in ("save", "save_again"):
                if kind == "save_again" and (mi, op["md"]) not in saves_seen:
                    # make it a genuine second save of the same (model, metadata object)
                    state.save(path(fj), md)
                    saves_seen.add((mi, op["md"]))
                before_p, before_u, before_md = params_of(state), udict_of(state), copy.deepcopy(md)
                before_ids = identity_map(md)
                with_loc(fj, "wb", op.get("loc", "str"), lambda loc: state.save(loc, md))
                require(identity_map(md) == before_ids, "save:replaces-metadata-objects",
                        "saving replaced objects inside the caller's metadata (equal values, other objects): later in-place updates by the caller no longer reach what is saved")
                labels.add("loc=" + op.get("loc", "str"))
                if (mi, op["md"]) in saves_seen:
                    labels.add("second_save_same_metadata")
                    if has_ud and md:
                        nt = True
                saves_seen.add((mi, op["md"]))
                require(same_params(before_p, params_of(state)), "save:mutates-model", "saving changed a model parameter")
                require(same_udict(before_u, udict_of(state)), "save:mutates-unitary-dict", "saving changed the unitary dictionary")
                require(meta_eq(md, before_md), "save:mutates-metadata", "saving modified the caller's metadata object",
                        before=str(before_md)[:300], after=str(md)[:300])
                raw = torch.load(path(fj))
                want_keys = set(state.networks) | set((md or {}).keys()) | ({"unitary_dict"} if has_ud else set())
                require(set(raw.keys()) == want_keys, "file:keys", f"file holds keys {sorted(raw.keys())}, expected {sorted(want_keys)}")
                for k, v in (md or {}).items():
                    require(meta_eq(raw[k], v), "file:metadata-roundtrip", f"metadata value under {k!r} did not round-trip", stored=str(raw[k])[:200], given=str(v)[:200])
                files[fj] = dict(spec=spec, params=before_p, udict=before_u, md=before_md)
            elif kind in ("load", "autoload"):
                if fj not in files:
                    continue
                rec = files[fj]
                if kind == "load":
                    how = op.get("target", "fresh")
                    same_shape = lambda a, b: (a["type"], a["n"], a["nh"], a.get("na")) == (b["type"], b["n"], b["nh"], b.get("na"))
                    if how == "self" and same_shape(rec["spec"], spec):
                        # load into a model of the program itself: it stays in use (trained, saved, loaded again) afterwards
                        tgt = state
                    else:
                        how = "fresh" if how == "self" else how
                        sibling = None
                        if how == "shared_dict" and rec["spec"]["type"] != "positive":
                            # shared object: the load target and a sibling state were built from the SAME dictionary object (whose X, Y and extra
                            # letter Q differ from anything saved); loading into the target must leave the sibling's and the caller's dictionary alone
                            from qucumber.utils import unitaries as UN_
                            s_ = rec["spec"]
                            shared_d = UN_.create_dict(X=R.c_to_lib(R.unitary_from_angles(0.9, 0.4, -0.3, 0.2)), Q=R.c_to_lib(R.unitary_from_angles(0.3, -0.2, 0.7, 0.1)))
                            keep_d = {k_: v_.clone() for k_, v_ in shared_d.items()}
                            mk_ = (lambda: ComplexWaveFunction(s_["n"], s_["nh"], unitary_dict=shared_d, gpu=False)) if s_["type"] == "complex" else \
                                  (lambda: DensityMatrix(s_["n"], s_["nh"], s_["na"], unitary_dict=shared_d, gpu=False))
                            tgt, sibling = mk_(), mk_()
                        else:
                            tgt = fresh_like(rec["spec"], "fresh" if how == "shared_dict" else how)
                    with_loc(fj, "rb", op.get("loc", "str"), lambda loc: tgt.load(loc))
                    if how == "shared_dict" and sibling is not None:
                        require(same_udict(keep_d, udict_of(sibling)) and same_udict(keep_d, {k_: v_ for k_, v_ in shared_d.items()}), "load:shared-dictionary-altered",
                                "load() into one state altered the unitary dictionary of a sibling state built from the same dictionary object (or the caller's dictionary itself)")
                    labels.add("load_target=" + how)
                else:
                    tgt = with_loc(fj, "rb", op.get("loc", "str"), lambda loc: cls[rec["spec"]["type"]].autoload(loc, gpu=False))
                    s_ = rec["spec"]
                    if s_["nh"] != s_["n"] and gen.all_biases_nonzero(s_):
                        nt = True
                require(type(tgt) is cls[rec["spec"]["type"]], f"{kind}:type", f"{kind} produced a {type(tgt).__name__}")
                require(same_params(rec["params"], params_of(tgt)), f"{kind}:parameters", f"{kind}: parameters are not bit-identical to the saved model's")
                require(same_udict(rec["udict"], udict_of(tgt)), f"{kind}:unitary-dict", f"{kind}: unitary dictionary differs from the saved one (keys or values)",
                        saved=sorted((rec["udict"] or {}).keys()), loaded=sorted((udict_of(tgt) or {}).keys()))
                s_ = rec["spec"]
                sizes = (tgt.num_visible, tgt.num_hidden) + ((tgt.num_aux,) if s_["type"] == "density" else ())
                want = (s_["n"], s_["nh"]) + ((s_["na"],) if s_["type"] == "density" else ())
                require(sizes == want, f"{kind}:architecture", f"{kind}: architecture {sizes} != saved {want}")
                for net in tgt.networks:
                    rb = getattr(tgt, net)
                    require((rb.num_visible, rb.num_hidden) == (s_["n"], s_["nh"]), f"{kind}:architecture", f"{kind}: network {net} has sizes {(rb.num_visible, rb.num_hidden)}")
            elif kind == "reserved":
                key = op["key"]
                if key == "rbm_ph" and not has_ud:
                    continue
                if key == "unitary_dict" and not has_ud:
                    continue
                val = [1, None, 0, False, "", {}, 1337][(mi + fj + len(key) + len(case["ops"])) % 7]        # a reserved NAME is refused whatever the value
                bad = {key: val, "other": 2}
                expect_raises(ValueError, lambda: state.save(path(fj) + ".bad", bad), "save:reserved-key-accepted", f"saving metadata with reserved key {key!r} (value {val!r})")
                require(bad == {key: val, "other": 2}, "save:mutates-metadata", "a refused save modified the metadata object")
            elif kind == "model_saver":
                if not isinstance(md, dict):
                    continue
                qucumber.set_random_seed(op["seed"], cpu=True, gpu=False, quiet=True)
                data, bases = tiny_data(state, spec["n"])
                kw = {"input_bases": bases} if has_ud else {}
                before_md = copy.deepcopy(md)
                ms = ModelSaver(1, os.path.join(tmp, f"ms{fj}"), "ep{}.pt", save_initial=True, metadata=md)
                guard, div = gen.divergence_guard()
                state.fit(data, epochs=2, pos_batch_size=2, lr=0.05, callbacks=[ms, guard], **kw)
                if div[0]:
                    return {"nontrivial": False, "excluded": 1, "labels": ["diverged"]}
                require(meta_eq(md, before_md), "save:mutates-metadata", "periodic model saving modified the metadata object")
                got = sorted(os.listdir(os.path.join(tmp, f"ms{fj}")))
                require(got == ["ep1.pt", "ep2.pt", "epinitial.pt"], "model_saver:files", f"ModelSaver wrote {got}")
                last = cls[spec["type"]].autoload(os.path.join(tmp, f"ms{fj}", "ep2.pt"), gpu=False)
                require(same_params(params_of(state), params_of(last)), "model_saver:parameters", "last periodic save does not reload to the final parameters")
                labels.add("model_saver")
                if op["seed"] % 4 == 0:
                    # long time axis: a (resumed) run whose epoch NUMBERS lie beyond 256, period 3: a file for every due epoch, the last one
                    # reloading to the final parameters
                    ms2 = ModelSaver(3, os.path.join(tmp, f"ms{fj}_late"), "ep{}.pt", save_initial=False, metadata=md)
                    guard, div = gen.divergence_guard()
                    state.fit(data, epochs=270, starting_epoch=255, pos_batch_size=2, lr=0.01, callbacks=[ms2, guard], **kw)
                    if div[0]:
                        return {"nontrivial": False, "excluded": 1, "labels": ["diverged"]}
                    got2 = sorted(os.listdir(os.path.join(tmp, f"ms{fj}_late")))
                    require(got2 == sorted(f"ep{e_}.pt" for e_ in range(255, 271) if e_ % 3 == 0), "model_saver:files", f"ModelSaver(period 3) over epochs 255..270 wrote {got2}")
                    last2 = cls[spec["type"]].autoload(os.path.join(tmp, f"ms{fj}_late", "ep270.pt"), gpu=False)
                    require(same_params(params_of(state), params_of(last2)), "model_saver:parameters", "the save of epoch 270 does not reload to the final parameters")
                    require(meta_eq(md, before_md), "save:mutates-metadata", "periodic model saving modified the metadata object")
                    labels.add("model_saver_epochs_beyond_256")
                if has_ud and md:
                    nt = True
    return {"nontrivial": nt, "labels": sorted(labels) + [f"types={'+'.join(sorted({m['type'] for m in case['models']}))}"]}


SUBCHECKS = [Sub("roundtrip", check, strategy=lambda tier: programs(tier), quick=320, thorough=4000, per_shard=10)]
