"""C15 - The complex-tensor kernel agrees with complex arithmetic."""
import numpy as np
import torch
from hypothesis import strategies as st

from vf.common import Sub, require, expect_raises

PROPERTY = "C15"
RULE = ("Generated: (operation, operand shapes, float64 operand values with per-operand magnitude scale in {1e-3,1,1e3}) for "
        "every public function of qucumber.utils.cplx; shapes cover scalars, vectors, matrices, rank-3/4 batches, size-1 dims, "
        "broadcast pairs, out= buffers, the float32 constant cplx.I, the (2,2,2)x(2,2,D) matmul form used by _kron_mult, einsum "
        "equations generated from random index strings (plus the equations the library's own callers use); rejection cases "
        "(rank mismatch, shape mismatch, aliasing out=). Oracle: numpy complex128 arithmetic on the decoded operands. "
        "Non-trivial = a rejection case, or all operands have non-zero real AND imaginary parts and some dimension > 1.")
RULE_EXT = ('Extended as built: purely real / purely imaginary operands, moduli 1e-12..1e3, contraction lengths up to 320, five chained applications whose earlier results are HELD and re-verified (no aliasing of outputs), the shared constant cplx.I must be unchanged after every case. Rounds 5-6: cplx.I together with an out= buffer; a computed result shares no memory with an operand.')
RULE_EXT += ' Round 10 (after an exception / long time axis): 1 case in 6 runs after a battery of refused calls (unsupported ranks / shapes, aliasing out=; caught); 130 or 260 consecutive calls of one function on small operands.'
RULE = RULE + " " + RULE_EXT
ASSUMPTIONS = ["float64 operands, each entry 0 or 1e-100 <= |x| <= 1e3, denominators |y| >= 1e-3, sigmoid |Re z| <= 700",
               "tolerance 1e-12 * (sum of |terms|) for products, 1e-10 relative for quotients"]

SC = [1e-3, 1.0, 1.0, 1e3]


@st.composite
def operand(draw, shape, nonzero=False):
    k = int(np.prod(shape)) if len(shape) else 1
    s = draw(st.sampled_from(SC))
    if nonzero:
        # |z| in [1e-3, 1e3] by construction (polar form); keeps denominators away from 0 without rejection
        r = draw(st.lists(st.one_of(st.floats(-3.0, 3.0, allow_nan=False, width=64), st.floats(-12.0, 3.0, allow_nan=False, width=64)), min_size=k, max_size=k))   # |z| from 1e-12 to 1e3
        th = draw(st.lists(st.floats(-3.2, 3.2, allow_nan=False, width=64), min_size=k, max_size=k))
        if draw(st.integers(0, 3)) == 0:
            th = [0.0 if t >= 0 else float(np.pi) for t in th]      # purely real non-zero operand (+-|z|)
        re = [float(10 ** a * np.cos(t)) for a, t in zip(r, th)]
        im = [float(10 ** a * np.sin(t)) if abs(np.sin(t)) > 1e-12 else 0.0 for a, t in zip(r, th)]
    else:
        fl = st.floats(-s, s, allow_nan=False, allow_infinity=False, width=64)
        # entries are exactly 0 or at least 1e-100 in magnitude, so products of two entries stay inside the normal
        # double range (x*conj(x) underflowing for |x| < 1e-154 is float64 behaviour, not the kernel's arithmetic)
        snap = lambda v: [0.0 if abs(x) < 1e-100 else x for x in v]
        re = snap(draw(st.lists(fl, min_size=k, max_size=k)))
        im = snap(draw(st.lists(fl, min_size=k, max_size=k)))
        kind = draw(st.sampled_from(["generic", "generic", "generic", "real", "imaginary"]))   # real constants (e.g. normalisations) are common operands
        if kind == "real":
            im = [0.0] * k
        elif kind == "imaginary":
            re = [0.0] * k
    return {"shape": list(shape), "re": re, "im": im}


def shape_st(min_rank=0, max_rank=3, max_side=3):
    small = st.lists(st.integers(1, max_side), min_size=min_rank, max_size=max_rank)
    large = st.lists(st.sampled_from([1, 2, 9, 12, 17]), min_size=max(1, min_rank), max_size=min(2, max_rank))      # occasionally larger dimensions
    return st.one_of(small, small, small, small, small, small, small, large)


EINSUM_FIXED = [  # equations used by the library's own callers, with compatible operand shapes
    ("ijb,ijbg->bg", [2, 2, 3], [2, 2, 3, 4]), ("ib,ibg->bg", [2, 3], [2, 3, 4]), ("b,bg->g", [3], [3, 4]),
    ("ab,cd->acbd", [2, 3], [3, 2]), ("ij,jk->ik", [2, 3], [3, 2]), ("i,i->", [3], [3]),
]


@st.composite
def einsum_case(draw):
    if draw(st.integers(0, 4)) == 0:
        eq, sa, sb = draw(st.sampled_from(EINSUM_FIXED))
    else:
        letters = "ijklm"
        sizes = {c: draw(st.integers(1, 3)) for c in letters}
        ai = draw(st.lists(st.sampled_from(letters), min_size=1, max_size=3, unique=True))
        bi = draw(st.lists(st.sampled_from(letters), min_size=1, max_size=3, unique=True))
        union = sorted(set(ai) | set(bi))
        oi = draw(st.lists(st.sampled_from(union), min_size=0, max_size=len(union), unique=True))
        eq = "".join(ai) + "," + "".join(bi) + "->" + "".join(oi)
        sa, sb = [sizes[c] for c in ai], [sizes[c] for c in bi]
    return {"op": "einsum", "eq": eq, "a": draw(operand(sa)), "b": draw(operand(sb)),
            "real_part": draw(st.booleans()), "imag_part": draw(st.booleans())}


@st.composite
def cases(draw):
    op = draw(st.sampled_from([
        "make_complex", "make_complex_numpy", "scalar_mult", "scalar_mult_bcast", "scalar_mult_out", "scalar_mult_I",
        "elementwise_mult", "matmul", "matmul_kron_form", "inner_prod", "outer_prod", "einsum", "einsum", "conjugate", "conj",
        "elementwise_division", "inverse", "scalar_divide", "scalar_divide_scalar", "absolute_value", "kronecker_prod", "sigmoid",
        "norm", "reject_inner", "reject_outer", "reject_kron", "reject_div", "reject_out_alias"]))
    c = {"op": op}
    if draw(st.integers(0, 5)) == 0:
        c["after_refused"] = True
    if op == "einsum":
        return dict(draw(einsum_case()), **c)
    if op in ("make_complex", "conj", "inverse", "absolute_value", "elementwise_mult", "scalar_mult", "elementwise_division",
              "scalar_divide", "scalar_mult_out", "make_complex_numpy", "sigmoid"):
        sh = draw(shape_st(0, 3))
        c["a"] = draw(operand(sh, nonzero=(op == "inverse")))
        if op in ("elementwise_mult", "scalar_mult", "scalar_mult_out"):
            c["b"] = draw(operand(sh))
        if op in ("elementwise_division", "scalar_divide"):
            c["b"] = draw(operand(sh, nonzero=True))
        if op == "make_complex":
            c["y_none"] = draw(st.booleans())
        if op == "sigmoid":
            # real part up to +-700 on some cases
            if draw(st.booleans()):
                f = draw(st.sampled_from([1.0, 0.7, 0.02]))
                c["a"]["re"] = [x * f for x in c["a"]["re"]]
    elif op == "scalar_mult_bcast":
        form = draw(st.sampled_from(["scalar*tensor", "tensor*scalar", "trailing"]))
        c["form"] = form
        sh = draw(shape_st(1, 3))
        if form == "scalar*tensor":
            c["a"], c["b"] = draw(operand([])), draw(operand(sh))
        elif form == "tensor*scalar":
            c["a"], c["b"] = draw(operand(sh)), draw(operand([]))
        else:
            m, k = draw(st.integers(1, 3)), draw(st.integers(1, 3))
            c["a"], c["b"] = draw(operand([m, 1])), draw(operand([1, k]))
    elif op == "scalar_mult_I":
        c["a"] = draw(operand(draw(shape_st(0, 4))))
    elif op == "matmul":
        m, k, p = draw(st.integers(1, 4)), draw(st.integers(1, 4)), draw(st.integers(1, 4))
        c["a"] = draw(operand([m, k]))
        c["b"] = draw(operand([k, p] if draw(st.booleans()) else [k]))
        if draw(st.integers(0, 14)) == 0:
            # a long contraction: the short drawn operands are tiled (with index-dependent signs) to k = 64..320
            c["tile_k"] = draw(st.sampled_from([64, 129, 256, 300, 320]))
    elif op == "matmul_kron_form":
        rest = draw(st.lists(st.integers(1, 4), min_size=0, max_size=1))
        c["a"] = draw(operand([2, 2]))
        c["b"] = draw(operand([2] + rest))
    elif op == "inner_prod":
        sh = draw(st.sampled_from([[], [1], [2], [3], [5]]))
        c["a"], c["b"] = draw(operand(sh)), draw(operand(sh))
    elif op == "norm":
        sh = draw(st.sampled_from([[], [1], [2], [4]]))
        c["a"] = draw(operand(sh))
    elif op == "outer_prod":
        c["a"], c["b"] = draw(operand([draw(st.integers(1, 4))])), draw(operand([draw(st.integers(1, 4))]))
    elif op == "conjugate":
        c["a"] = draw(operand(draw(shape_st(0, 4))))
    elif op == "kronecker_prod":
        c["a"] = draw(operand([draw(st.integers(1, 3)), draw(st.integers(1, 3))]))
        c["b"] = draw(operand([draw(st.integers(1, 3)), draw(st.integers(1, 3))]))
    elif op == "scalar_divide_scalar":
        c["a"], c["b"] = draw(operand(draw(shape_st(1, 3)))), draw(operand([], nonzero=True))
    elif op == "reject_inner":
        sa, sb = draw(st.sampled_from([([3], []), ([], [3]), ([2, 2], [2, 2]), ([2, 2], [2])]))
        c["a"], c["b"] = draw(operand(sa)), draw(operand(sb))
    elif op == "reject_outer":
        sa, sb = draw(st.sampled_from([([], [3]), ([3], []), ([2, 2], [2]), ([2], [2, 2])]))
        c["a"], c["b"] = draw(operand(sa)), draw(operand(sb))
    elif op == "reject_kron":
        sa, sb = draw(st.sampled_from([([2], [2, 2]), ([2, 2], [2]), ([2, 2, 2], [2, 2]), ([], [])]))
        c["a"], c["b"] = draw(operand(sa)), draw(operand(sb))
    elif op == "reject_div":
        sa, sb = draw(st.sampled_from([([3], [2]), ([2, 2], [2]), ([3], []), ([2, 3], [3, 2])]))
        c["a"], c["b"] = draw(operand(sa)), draw(operand(sb, nonzero=True))
    elif op == "reject_out_alias":
        sh = draw(shape_st(0, 2))
        c["a"], c["b"] = draw(operand(sh)), draw(operand(sh))
        c["alias"] = draw(st.sampled_from(["x", "y"]))
    if not op.startswith("reject") and draw(st.integers(0, 60)) == 0 and len(c["a"]["re"]) <= 16:
        c["many_calls"] = draw(st.sampled_from([130, 260]))
    return c


def dec(o):
    return (np.array(o["re"], dtype=np.float64) + 1j * np.array(o["im"], dtype=np.float64)).reshape(o["shape"])


def tile_contraction(a, b, K):
    """deterministic enlargement of a (m,k) x (k[,p]) product to contraction length K"""
    k = a.shape[-1]
    reps = -(-K // k)
    sgn = np.where((np.arange(reps * k) // k) % 3 == 1, -1.0, 1.0)[:K]
    A = np.tile(a, (1, reps))[:, :K] * sgn[None, :]
    B = (np.tile(b, (reps,) + (1,) * (b.ndim - 1))[:K] * (sgn[:, None] if b.ndim == 2 else sgn) * (1 + (np.arange(K) % 5))[(slice(None),) + (None,) * (b.ndim - 1)])
    return A, B


def enc(z):
    z = np.asarray(z, dtype=np.complex128)
    return torch.stack([torch.tensor(z.real.copy(), dtype=torch.float64), torch.tensor(z.imag.copy(), dtype=torch.float64)])


def cmp(out, ref, scale, what, rtol=1e-12):
    ref = np.asarray(ref, dtype=np.complex128)
    require(isinstance(out, torch.Tensor), what + ":type", f"{what} did not return a tensor")
    require(tuple(out.shape) == (2,) + ref.shape, what + ":shape", f"{what}: shape {tuple(out.shape)} != expected {(2,) + ref.shape}")
    o = out.detach().double().numpy()
    z = o[0] + 1j * o[1]
    err = np.abs(z - ref)
    ok = np.all(err <= rtol * scale) if err.size else True
    require(bool(ok), what + ":value", f"{what}: differs from numpy complex arithmetic (max err {float(err.max()) if err.size else 0:.3e}, allowed {rtol}*scale)",
            got=str(z.tolist())[:400], ref=str(ref.tolist())[:400])
    if "out=" not in what:
        # a freshly computed result is the caller's own tensor: it shares no memory with an operand (so that editing the result in place
        # cannot change the operand, whatever the operand's values - purely real ones included)
        for t_ in OPERANDS:
            require(t_ is None or out.numel() == 0 or out.untyped_storage().data_ptr() != t_.untyped_storage().data_ptr(), what + ":result-aliases-operand",
                    f"{what}: the returned tensor shares memory with an operand")
    if len(HELD) < 40:
        HELD.append((out, ref, scale, max(rtol, 1e-15), what))


def mx(z):
    z = np.asarray(z)
    return float(np.abs(z).max()) if z.size else 0.0


OPERANDS = []  # the operand tensors of the current call (results must not share memory with them)
HELD = []      # (output tensor, expected, scale, rtol, what) of every comparison of the current case


def verify_held():
    for out, ref, scale, rtol, what in HELD:
        o = out.detach().double().numpy()
        z = o[0] + 1j * o[1]
        err = np.abs(z - ref)
        require(bool(np.all(err <= rtol * scale)) if err.size else True, what + ":earlier-result-changed",
                f"{what}: a result returned by an earlier call no longer holds its value after later calls of the same function")


def refused_calls():
    """after an exception: the documented refusals (ValueError for unsupported ranks / shapes, RuntimeError for an aliasing out=), caught
    as a caller would - the functions keep no state, so every later call is unaffected"""
    from qucumber.utils import cplx
    m, v, r3 = torch.ones(2, 2, 2, dtype=torch.double), torch.ones(2, 3, dtype=torch.double), torch.ones(2, 2, 2, 2, dtype=torch.double)
    for f in (lambda: cplx.norm_sqr(m), lambda: cplx.norm(r3), lambda: cplx.inner_prod(v, m), lambda: cplx.outer_prod(m, v),
              lambda: cplx.kronecker_prod(v, m), lambda: cplx.elementwise_division(v, m), lambda: cplx.scalar_mult(v, v, out=v),
              lambda: cplx.matmul(v, r3), lambda: cplx.einsum("ij,jk->ik", v, v), lambda: cplx.make_complex(v[0], m[0])):
        try:
            f()
        except Exception:
            pass


def check(case):
    del HELD[:]
    if case.get("after_refused"):
        refused_calls()
    r = check_once(case)
    if case.get("many_calls") and not case["op"].startswith("reject"):
        for _ in range(case["many_calls"]):          # long time axis: well over a hundred consecutive calls in one process
            check_once(case)
    if not case["op"].startswith("reject") and case.get("a") is not None and len(case["a"]["re"]) <= 64:
        for _ in range(4):        # five applications with identical operands in total: the kernel keeps no state ...
            check_once(case)
        if case.get("b") is None or len(case["b"]["re"]) <= 64:
            # history: the same operand tensor objects refilled in place with other values (first operand halved and negated, second doubled)
            # - the function must see the current contents
            verify_held()
            del HELD[:]
            c2 = dict(case, a=dict(case["a"], re=[-0.5 * x for x in case["a"]["re"]], im=[-0.5 * x for x in case["a"]["im"]]))
            if case.get("b") is not None and case["op"] not in ("scalar_divide", "elementwise_division", "reject_div"):
                c2["b"] = dict(case["b"], re=[2.0 * x for x in case["b"]["re"]], im=[2.0 * x for x in case["b"]["im"]])
            check_once(c2, reuse=True)
            check_once(case, reuse=True)
        verify_held()      # ... and a result handed out earlier is not altered by later calls
    del HELD[:]
    return r


LAST = {}      # operand tensor objects of the previous call (re-used, refilled in place, by the history step of check())


def check_once(case, reuse=False):
    from qucumber.utils import cplx
    op = case["op"]
    a = dec(case["a"]) if "a" in case else None
    b = dec(case["b"]) if "b" in case else None
    if case.get("tile_k"):
        a, b = tile_contraction(a, b, case["tile_k"])
    ta = enc(a) if a is not None else None
    tb = enc(b) if b is not None else None
    if reuse and LAST.get("ta") is not None and ta is not None and LAST["ta"].shape == ta.shape and (tb is None or (LAST.get("tb") is not None and LAST["tb"].shape == tb.shape)):
        # the caller's operand tensors are the SAME objects as in the previous call, refilled in place with other values
        LAST["ta"].copy_(ta)
        ta = LAST["ta"]
        if tb is not None:
            LAST["tb"].copy_(tb)
            tb = LAST["tb"]
    LAST["ta"], LAST["tb"] = ta, tb
    ka = ta.clone() if ta is not None else None
    kb = tb.clone() if tb is not None else None
    OPERANDS[:] = [ta, tb]

    if op == "make_complex":
        x, y = torch.tensor(a.real.copy()), torch.tensor(a.imag.copy())
        if case.get("y_none"):
            out = cplx.make_complex(x)
            ref = a.real + 0j
        else:
            out = cplx.make_complex(x, y)
            ref = a
        cmp(out, ref, 1.0, "make_complex", rtol=0.0)
        require(torch.equal(cplx.real(out), torch.tensor(ref.real.copy())) and torch.equal(cplx.imag(out), torch.tensor(ref.imag.copy())),
                "real/imag", "real()/imag() do not return the parts")
        back = cplx.numpy(out)
        require(back.shape == ref.shape and np.array_equal(back, ref), "numpy()", "numpy() does not decode to x+iy")
    elif op == "make_complex_numpy":
        out = cplx.make_complex(a)
        cmp(out, a, 1.0, "make_complex(ndarray)", rtol=0.0)
        if a.ndim >= 2:
            # the same values in other memory layouts (Fortran order, a transposed view of the transposed copy, swapped axes): the logical
            # element order is what counts
            for name, arr in (("F-order", np.asfortranarray(a)), ("transposed view", np.ascontiguousarray(a.T).T),
                              ("swapped-axes view", np.ascontiguousarray(np.swapaxes(a, 0, -1)).swapaxes(0, -1))):
                cmp(cplx.make_complex(arr), a, 1.0, f"make_complex(ndarray, {name})", rtol=0.0)
    elif op in ("scalar_mult", "elementwise_mult", "scalar_mult_bcast"):
        fn = cplx.elementwise_mult if op == "elementwise_mult" else cplx.scalar_mult
        cmp(fn(ta, tb), a * b, (mx(a) + 1e-300) * (mx(b) + 1e-300) * 4, op)
        if op != "scalar_mult_bcast" and ta.dim() >= 3 and tb.dim() == ta.dim():
            # the same operands as non-contiguous (swapped-axes) views of the same values
            nc = lambda t: t.transpose(1, -1).contiguous().transpose(1, -1)
            cmp(fn(nc(ta), nc(tb)), a * b, (mx(a) + 1e-300) * (mx(b) + 1e-300) * 4, op + "(non-contiguous views)")
    elif op == "scalar_mult_out":
        buf = torch.full((2,) + a.shape, 7.0, dtype=torch.float64)
        r = cplx.scalar_mult(ta, tb, out=buf)
        require(r is buf, "scalar_mult_out:identity", "scalar_mult(out=) did not return the given buffer")
        cmp(buf, a * b, (mx(a) + 1e-300) * (mx(b) + 1e-300) * 4, "scalar_mult(out=)")
    elif op == "scalar_mult_I":
        # the imaginary-unit constant is shared by the whole library: other library code that uses it runs first
        from qucumber.nn_states import ComplexWaveFunction
        from qucumber.observables import SigmaY
        tiny = ComplexWaveFunction(3, 2, gpu=False)
        sm = tiny.generate_hilbert_space()[:4]
        SigmaY().apply(tiny, sm); SigmaY().apply(tiny, sm)
        tiny.ph_grads(sm)
        tiny.gradient(sm, bases=np.array([list("XYZ")] * 4))
        require(cplx.I.tolist() == [0.0, 1.0], "constant-I-changed", f"library code changed the shared constant cplx.I to {cplx.I.tolist()}")
        cmp(cplx.scalar_mult(ta, cplx.I), a * 1j, mx(a) + 1e-300, "scalar_mult(x, cplx.I)")
        cmp(cplx.scalar_divide(ta, cplx.I.to(ta)), a / 1j, mx(a) + 1e-300, "scalar_divide(x, cplx.I)", rtol=1e-10)
        buf = torch.full_like(ta, 7.0)
        ret = cplx.scalar_mult(ta, cplx.I, out=buf)          # the constant together with a caller-supplied result buffer
        cmp(buf, a * 1j, mx(a) + 1e-300, "scalar_mult(x, cplx.I, out=buffer): contents of the buffer")
        cmp(ret, a * 1j, mx(a) + 1e-300, "scalar_mult(x, cplx.I, out=buffer): return value")
    elif op in ("matmul", "matmul_kron_form"):
        K = a.shape[-1]
        cmp(cplx.matmul(ta, tb), a @ b, K * 4 * (mx(a) + 1e-300) * (mx(b) + 1e-300), "matmul")
    elif op == "inner_prod":
        ref = np.vdot(a, b) if a.ndim == 1 else np.conj(a) * b
        cmp(cplx.inner_prod(ta, tb), ref, max(a.size, 1) * 4 * (mx(a) + 1e-300) * (mx(b) + 1e-300), "inner_prod")
    elif op == "norm":
        n2 = np.sum(np.abs(a) ** 2)
        o2 = cplx.norm_sqr(ta)
        require(o2.dim() == 0 and abs(float(o2) - n2) <= 1e-12 * n2 + 1e-300, "norm_sqr", f"norm_sqr {float(o2)} != {n2}")
        o1 = cplx.norm(ta)
        require(o1.dim() == 0 and abs(float(o1) - np.sqrt(n2)) <= 1e-12 * np.sqrt(n2) + 1e-300, "norm", f"norm {float(o1)} != {np.sqrt(n2)}")
    elif op == "outer_prod":
        cmp(cplx.outer_prod(ta, tb), np.outer(a, np.conj(b)), 4 * (mx(a) + 1e-300) * (mx(b) + 1e-300), "outer_prod")
    elif op == "einsum":
        eq = case["eq"]
        rp, ip = case["real_part"], case["imag_part"]
        ref = np.einsum(eq, a, b)
        ai, bi = eq.split("->")[0].split(",")
        oi = eq.split("->")[1]
        K = 1
        for ch, sz in list(zip(ai, a.shape)) + list(zip(bi, b.shape)):
            if ch not in oi:
                K = max(K, 1) * 1
        K = int(np.prod([sz for ch, sz in dict(list(zip(ai, a.shape)) + list(zip(bi, b.shape))).items() if ch not in oi]) or 1)
        scale = K * 4 * (mx(a) + 1e-300) * (mx(b) + 1e-300)
        out = cplx.einsum(eq, ta, tb, real_part=rp, imag_part=ip)
        if rp and ip:
            cmp(out, ref, scale, f"einsum")
        elif rp or ip:
            want = np.asarray(ref.real if rp else ref.imag)
            require(tuple(out.shape) == want.shape, "einsum:part-shape", f"einsum part shape {tuple(out.shape)} != {want.shape}")
            require(bool(np.all(np.abs(out.double().numpy() - want) <= 1e-12 * scale)), "einsum:part-value",
                    f"einsum({eq!r}, real_part={rp}, imag_part={ip}) differs from numpy")
        else:
            require(out is None, "einsum:none", "einsum with neither part requested must return None")
    elif op == "conjugate":
        ref = np.conj(a) if a.ndim < 2 else np.swapaxes(np.conj(a), 0, 1)
        cmp(cplx.conjugate(ta), ref, 1.0, "conjugate", rtol=0.0)
    elif op == "conj":
        cmp(cplx.conj(ta), np.conj(a), 1.0, "conj", rtol=0.0)
    elif op == "elementwise_division":
        ref = a / b
        cmp(cplx.elementwise_division(ta, tb), ref, np.abs(ref) + 1e-300, "elementwise_division", rtol=1e-10)
    elif op == "inverse":
        ref = 1 / a
        cmp(cplx.inverse(ta), ref, np.abs(ref), "inverse", rtol=1e-10)
    elif op in ("scalar_divide", "scalar_divide_scalar"):
        ref = a / b
        cmp(cplx.scalar_divide(ta, tb), ref, np.abs(ref) + 1e-300, "scalar_divide", rtol=1e-10)
    elif op == "absolute_value":
        out = cplx.absolute_value(ta)
        ref = np.abs(a)
        require(tuple(out.shape) == ref.shape, "absolute_value:shape", "absolute_value must return a real tensor of the operand's shape")
        require(bool(np.all(np.abs(out.numpy() - ref) <= 1e-12 * ref + 1e-300)), "absolute_value:value", "absolute_value differs from |z|")
    elif op == "kronecker_prod":
        cmp(cplx.kronecker_prod(ta, tb), np.kron(a, b), 4 * (mx(a) + 1e-300) * (mx(b) + 1e-300), "kronecker_prod")
    elif op == "sigmoid":
        z = np.clip(a.real, -700, 700) + 1j * a.imag
        x, y = torch.tensor(z.real.copy()), torch.tensor(z.imag.copy())
        out = cplx.sigmoid(x, y)
        require(tuple(out.shape) == (2,) + z.shape, "sigmoid:shape", f"sigmoid shape {tuple(out.shape)}")
        o = out.double().numpy()
        o = o[0] + 1j * o[1]
        ez = np.exp(z)
        # cross-multiplied comparison: robust next to the pole at z = i*pi
        require(bool(np.all(np.abs(o * (1 + ez) - ez) <= 1e-12 * (1 + np.abs(ez)) * (1 + np.abs(o)))), "sigmoid:value",
                "sigmoid(z)*(1+e^z) != e^z")
        if z.ndim >= 2:
            # the same logical values handed over as non-contiguous views (a transposed view of the transposed copy, swapped axes): the
            # logical element order is what counts (seeded change C15w)
            for name, f in (("transposed view", lambda t: t.transpose(0, 1).contiguous().transpose(0, 1)),
                            ("swapped-axes view", lambda t: t.transpose(0, -1).contiguous().transpose(0, -1))):
                xv, yv = f(x), f(y)
                ov = cplx.sigmoid(xv, yv)
                require(tuple(ov.shape) == (2,) + z.shape, f"sigmoid:shape({name})", f"sigmoid shape {tuple(ov.shape)}")
                ov = ov.double().numpy()
                ov = ov[0] + 1j * ov[1]
                require(bool(np.all(np.abs(ov * (1 + ez) - ez) <= 1e-12 * (1 + np.abs(ez)) * (1 + np.abs(ov)))), f"sigmoid:value({name})",
                        f"sigmoid of a {name} of the same values: sigmoid(z)*(1+e^z) != e^z")
    elif op == "reject_inner":
        expect_raises(ValueError, lambda: cplx.inner_prod(ta, tb), "inner_prod:accepts-bad-rank", "inner_prod of unsupported ranks")
    elif op == "reject_outer":
        expect_raises(ValueError, lambda: cplx.outer_prod(ta, tb), "outer_prod:accepts-bad-rank", "outer_prod of non-vectors")
    elif op == "reject_kron":
        expect_raises(ValueError, lambda: cplx.kronecker_prod(ta, tb), "kronecker_prod:accepts-bad-rank", "kronecker_prod of non-matrices")
    elif op == "reject_div":
        expect_raises(ValueError, lambda: cplx.elementwise_division(ta, tb), "elementwise_division:accepts-shape-mismatch", "elementwise_division of different shapes")
    elif op == "reject_out_alias":
        tgt = ta if case["alias"] == "x" else tb
        expect_raises(RuntimeError, lambda: cplx.scalar_mult(ta, tb, out=tgt), "scalar_mult:accepts-aliasing-out", "scalar_mult with out aliasing an argument")
    else:
        raise AssertionError(op)
    if ka is not None and not op.startswith("reject_out"):
        require(torch.equal(ka, ta), "mutated-input", f"{op} modified its first operand (a second use of the same tensor would give a different result)")
    if kb is not None and not op.startswith("reject_out"):
        require(torch.equal(kb, tb), "mutated-input", f"{op} modified its second operand")
    return {}


def nontrivial(case):
    if case["op"].startswith("reject"):
        return True
    big = False
    for k in ("a", "b"):
        o = case.get(k)
        if o is None:
            continue
        if not (any(x != 0 for x in o["re"]) and any(x != 0 for x in o["im"])):
            return False
        big = big or any(s > 1 for s in o["shape"])
    return big


def labels(case):
    return ["op=" + case["op"]]


SUBCHECKS = [Sub("kernel", check, strategy=lambda tier: cases(), quick=16000, thorough=400000, nontrivial=nontrivial, labels=labels)]
