"""C05 - Gibbs sampling targets exactly the distribution the model reports."""
import math

import torch
from hypothesis import strategies as st

from vf import gen, refmodel as R
from vf.common import Sub, require

PROPERTY = "C05"
RULE = ("(kernel) generated parameters for Binary/Purification RBMs (n 1..4, nh 1..4, na 1..3, all biases drawn): the exact "
        "transition matrix assembled from the library's public conditional-probability methods over ALL enumerated hidden/"
        "auxiliary configurations is compared with the kernel of the reference joint Boltzmann weight and tested for detailed "
        "balance / stationarity w.r.t. probability(space)/Z. (history) generated programs of sample() calls (k 0..3, fresh or "
        "continued chains, overwrite on/off, parameter changes in between) executed with torch.bernoulli replaced by a scripted "
        "monitor fed with Hypothesis-drawn uniforms: every call's probability tensor must be the reference conditional of the "
        "current chain state. (empirical) 20000 parallel chains with the real RNG vs row v0 of T_ref^k, Hoeffding+union bound "
        "threshold (false-alarm prob <= 1e-12 per case). Non-trivial = all biases non-zero, nh != nv or na != nv, k >= 1, and for "
        "histories some uniform fell on each side of its probability.")
RULE_EXT = ('Extended as built: the start state seen by the kernel is learned from a spy on gibbs_steps; results of earlier calls are held and re-verified after later calls; float32 start states; default start must be random and of the right shape; effective_energy(v, a) with explicit auxiliary units. Rounds 5-6: the public sample_h_given_v / sample_v_given_h / sample_a_given_v / sample_v_given_ha called directly without and with out= under the scripted Bernoulli monitor; num_aux = 0.')
RULE_EXT += ' Round 10 (after an exception / long time axis): histories with refused sample() calls (wrong width, non-integer k, read-only start with overwrite; caught) and chains of 16-37 steps; empirical law for k up to 200 on slowly mixing networks (label law_after_16_steps_differs).'
RULE_EXT += " Start states that are views into a larger tensor of the caller (every second column, a transposed block): with overwrite=True exactly the viewed elements hold the final chain states, the view keeps its geometry, the other elements are untouched."
RULE_EXT += ' Round 11 (re-entrant use / feature interactions): op inside_fit: sample(2, start) from inside the callbacks of a running fit under the draw monitor, every draw against the conditionals of the parameters of that moment.'
RULE = RULE + " " + RULE_EXT
ASSUMPTIONS = ["(history) the implementation draws through torch.bernoulli; if the monitor sees no call for k>0 it declares itself "
               "inapplicable instead of raising", "(empirical) power limited to deviations >= ~3% in some state probability",
               "start states are float64 CPU tensors (the documented exception for other devices is out of reach)"]


# --------------------------------------------------------------------------- reference kernel

def ref_tables(sc):
    """joint log-weights over (v, latent) with latent = h or (h,a) flattened; and the latent bit table."""
    n = sc["n"]
    am = R.net_from_case(sc["am"])
    V = R.bits(n)
    H = R.bits(sc["nh"])
    if sc["type"] == "density":
        A = R.bits(sc["na"])
        lw = R.joint_logw_purif(am, V, H, A)          # (D, 2^nh, 2^na)
        lat = torch.cat([H[:, None, :].expand(-1, A.shape[0], -1), A[None, :, :].expand(H.shape[0], -1, -1)], dim=2).reshape(-1, sc["nh"] + sc["na"])
        return V, lat, lw.reshape(V.shape[0], -1)
    return V, H, R.joint_logw_binary(am, V, H)


def ref_kernel(sc):
    V, lat, lw = ref_tables(sc)
    p_l_given_v = torch.softmax(lw, dim=1)            # (D, L)
    p_v_given_l = torch.softmax(lw, dim=0)            # (D, L): column l = distribution over v
    T = p_l_given_v @ p_v_given_l.t()                 # T[v, v']
    pi = torch.softmax(torch.logsumexp(lw, dim=1), 0)
    return V, lat, lw, T, pi


def product_table(p_on, cfg):
    """P(cfg | row) for factorised conditionals: p_on (R, m) probabilities of each unit being on, cfg (C, m)."""
    return torch.prod(torch.where(cfg[None, :, :] > 0.5, p_on[:, None, :], 1 - p_on[:, None, :]), dim=2)


def check_kernel(sc):
    state = gen.build_state(sc)
    rbm = state.rbm_am
    n = sc["n"]
    V, lat, lw, T_ref, pi_ref = ref_kernel(sc)
    H = R.bits(sc["nh"])
    ph = rbm.prob_h_given_v(V.clone()).double()
    require(ph.shape == (2 ** n, sc["nh"]) and bool(torch.all((ph >= 0) & (ph <= 1))), "kernel:prob_h-shape/range", "prob_h_given_v not a probability table")
    Ph = product_table(ph, H)
    if sc["type"] == "density":
        A = R.bits(sc["na"])
        pa = rbm.prob_a_given_v(V.clone()).double()
        Pa = product_table(pa, A)
        Plat = (Ph[:, :, None] * Pa[:, None, :]).reshape(2 ** n, -1)
        hh = H[:, None, :].expand(-1, A.shape[0], -1).reshape(H.shape[0] * A.shape[0], sc["nh"])
        aa = A[None, :, :].expand(H.shape[0], -1, -1).reshape(H.shape[0] * A.shape[0], sc["na"])
        pv = rbm.prob_v_given_ha(hh.clone(), aa.clone()).double()
        # effective energy with the auxiliary configuration given explicitly: -log sum_h w(v, h, a)
        am_ = R.net_from_case(sc["am"])
        lw3 = R.joint_logw_purif(am_, V, H, A)
        for ai in range(A.shape[0]):
            e_lib = rbm.effective_energy(V.clone(), A[ai].clone().expand(V.shape[0], -1)).double()
            e_ref = -torch.logsumexp(lw3[:, :, ai], dim=1)
            require(bool(torch.all((e_lib - e_ref).abs() <= 1e-7 * (1 + e_ref.abs()))), "kernel:effective_energy(v,a)",
                    "effective_energy(v, a) with explicit auxiliary units is not -log of the hidden-unit marginal of the joint weight")
    else:
        Plat = Ph
        pv = rbm.prob_v_given_h(H.clone()).double()
    Pv = product_table(pv, V)                          # (L, D): P(v' | latent)
    # the public conditional samplers, called directly (without and with an out= buffer): a 0/1 draw of the right shape from the
    # conditional-probability table of the same arguments
    if sc["type"] == "density":
        samplers = [("sample_h_given_v", (V,), ph), ("sample_a_given_v", (V,), pa), ("sample_v_given_ha", (hh, aa), pv)]
    else:
        samplers = [("sample_h_given_v", (V,), ph), ("sample_v_given_h", (H,), pv)]
    mon = Monitor([0.3, 0.71, 0.5, 0.11, 0.93, 0.02, 0.999])
    real_bernoulli = torch.bernoulli
    try:
        torch.bernoulli = mon
        for use_out in (False, True):
            for name, args, table in samplers:
                mon.calls = []
                buf = torch.full(tuple(table.shape), 7.0, dtype=torch.double) if use_out else None
                got = getattr(rbm, name)(*[a_.clone() for a_ in args], **({"out": buf} if use_out else {}))
                require(isinstance(got, torch.Tensor) and got.shape == table.shape and bool(torch.all((got == 0) | (got == 1))), "kernel:sampler-values",
                        f"{name}({'out=buffer' if use_out else ''}) did not return a 0/1 array of the shape of its conditional-probability table")
                if mon.calls:
                    pc, d = mon.calls[-1]
                    require(len(mon.calls) == 1 and bool(torch.all((pc.reshape(table.shape) - table).abs() <= 1e-12)) and torch.equal(got.double(), d.reshape(table.shape)),
                            "kernel:sampler-law", f"{name} does not draw each unit once from its conditional probability")
                if use_out:
                    require(torch.equal(buf, got.double()), "kernel:sampler-out", f"{name}(out=buffer) did not place the draw in the buffer")
    finally:
        torch.bernoulli = real_bernoulli
    tol = lambda ref: 1e-7 * ref + 1e-12
    ref_lat = torch.softmax(lw, dim=1)
    require(bool(torch.all((Plat - ref_lat).abs() <= tol(ref_lat))), "kernel:latent-conditional",
            "p(h[,a] | v) from the library's conditionals differs from the conditional of the reference joint Boltzmann weight",
            worst=float((Plat - ref_lat).abs().max()))
    ref_vis = torch.softmax(lw, dim=0).t()
    require(bool(torch.all((Pv - ref_vis).abs() <= tol(ref_vis))), "kernel:visible-conditional",
            "p(v | h[,a]) from the library's conditionals differs from the conditional of the reference joint", worst=float((Pv - ref_vis).abs().max()))
    T = Plat @ Pv
    require(bool(torch.all((T.sum(1) - 1).abs() <= 1e-9)), "kernel:rows", "rows of the assembled transition matrix do not sum to 1")
    space = state.generate_hilbert_space()
    pi = state.probability(space).double() / state.normalization(space).double()
    require(bool(torch.all((pi - pi_ref).abs() <= 1e-7 * pi_ref + 1e-15)), "kernel:reported-distribution", "probability/Z differs from the reference visible marginal")
    flow = pi[:, None] * T
    require(bool(torch.all((flow - flow.t()).abs() <= 1e-7 * torch.maximum(flow, flow.t()) + 1e-12)), "kernel:detailed-balance",
            "pi(v)T(v,v') != pi(v')T(v',v) for the reported distribution pi", worst=float((flow - flow.t()).abs().max()))
    require(bool(torch.all((pi @ T - pi).abs() <= 1e-9)), "kernel:stationarity", "the reported distribution is not invariant under the Gibbs kernel")
    return {"labels": gen.arch_label(sc)}


def nt_arch(sc):
    return gen.all_biases_nonzero({"am": sc["am"]}) and (sc["nh"] != sc["n"] or (sc.get("na") is not None and sc["na"] != sc["n"]))


# --------------------------------------------------------------------------- scripted-Bernoulli histories

class Monitor:
    def __init__(self, us):
        self.us = us
        self.i = 0
        self.calls = []
        self.low = self.high = False

    def __call__(self, p, *args, out=None, **kw):
        pc = p.detach().clone().double()
        u = torch.tensor([self.us[(self.i + j) % len(self.us)] for j in range(pc.numel())], dtype=torch.double).reshape(pc.shape)
        self.i += pc.numel()
        d = (u < pc).to(p.dtype)
        inner = (pc > 0) & (pc < 1)
        self.low = self.low or bool(((u < pc) & inner).any())
        self.high = self.high or bool(((u >= pc) & inner).any())
        self.calls.append((pc, d.detach().clone().double()))
        if out is not None:
            out.copy_(d)
            return out
        return d


def cond_units(lw_row, cfg):
    """marginal P(unit_j = 1) under softmax(lw_row) over configurations cfg (C, m)."""
    return torch.softmax(lw_row, 0) @ cfg


def ref_latent_probs(sc, am, v):
    """reference p(h_j=1|v), p(a_j=1|v) for each chain row of v (B,n), by slice normalisation of the joint."""
    H = R.bits(sc["nh"])
    if sc["type"] == "density":
        A = R.bits(sc["na"])
        lw = R.joint_logw_purif(am, v, H, A)
        ph = torch.stack([cond_units(torch.logsumexp(lw[b], 1), H) for b in range(v.shape[0])])
        pa = torch.stack([cond_units(torch.logsumexp(lw[b], 0), A) for b in range(v.shape[0])])
        return ph, pa
    lw = R.joint_logw_binary(am, v, H)
    return torch.stack([cond_units(lw[b], H) for b in range(v.shape[0])]), None


def ref_visible_probs(sc, am, h, a):
    V = R.bits(sc["n"])
    out = []
    for b in range(h.shape[0]):
        if sc["type"] == "density":
            lw = R.joint_logw_purif(am, V, h[b:b + 1], a[b:b + 1]).reshape(-1)
        else:
            lw = R.joint_logw_binary(am, V, h[b:b + 1]).reshape(-1)
        out.append(cond_units(lw, V))
    return torch.stack(out)


def eq(p, ref):
    return p.shape == ref.shape and bool(torch.all((p - ref).abs() <= 1e-9))


KSTEPS = st.one_of(st.integers(0, 3), st.integers(0, 3), st.integers(0, 3), st.sampled_from([16, 17, 20, 33, 37]))     # occasionally a long chain (more than 16 / 32 steps)


@st.composite
def histories(draw, tier):
    sc = draw(gen.state_case(n=(1, 3), nh=(1, 3), na=(1, 3), scales=[0.5, 2.0, 2.0, 8.0], bound=60.0))
    n = sc["n"]
    alt = gen.rescale_case({"am": draw(gen.net_params(n, sc["nh"], sc.get("na"), [0.5, 2.0, 8.0]))}, 60.0)["am"]
    ops = []
    m_fixed = draw(st.integers(1, 3))
    for _ in range(draw(st.integers(1, 8))):
        kind = draw(st.sampled_from(["fresh", "start", "continue", "continue", "reparam", "reinit_reparam", "other_object", "refused", "inside_fit"]))
        op = {"op": kind}
        if kind == "refused":
            op["how"] = draw(st.sampled_from(["width", "width", "k_not_integer", "readonly_overwrite"]))
        if kind == "fresh":
            op.update(k=draw(KSTEPS), m=m_fixed if draw(st.booleans()) else draw(st.integers(1, 3)))
        elif kind == "start":
            op.update(k=draw(st.integers(0, 3)), idx=draw(gen.index_list(n, 1, 3)), overwrite=draw(st.booleans()), one_d=draw(st.booleans()),
                      dtype=draw(st.sampled_from(["float64", "float64", "float32"])),
                      layout=draw(st.sampled_from(["contiguous", "contiguous", "strided", "transposed"])))     # the start state as a view into a larger tensor of the caller
        elif kind == "continue":
            op.update(k=draw(KSTEPS), overwrite=draw(st.booleans()))
        ops.append(op)
    us = draw(st.lists(st.floats(0, 1, exclude_max=True, allow_nan=False, width=64), min_size=8, max_size=48))
    return {"state": sc, "alt": alt, "ops": ops, "us": us}


def walk_steps(sc, am, cur, calls, k, bucket):
    """the monitored draws `calls` of k Gibbs steps from the visible states `cur` against the reference conditionals of the parameters `am`
    -> final visible states"""
    n = sc["n"]
    per = 3 if sc["type"] == "density" else 2
    require(len(calls) == per * k, bucket + ":draw-count", f"{k} Gibbs step(s): saw {len(calls)} draws, expected {per * k}")
    i = 0
    for s in range(k):
        ph, pa = ref_latent_probs(sc, am, cur)
        if sc["type"] == "density":
            (p1, d1), (p2, d2) = calls[i], calls[i + 1]
            p1, p2 = p1.reshape(cur.shape[0], -1), p2.reshape(cur.shape[0], -1)
            if eq(p1, ph) and eq(p2, pa):
                h, a = d1, d2
            elif eq(p1, pa) and eq(p2, ph):
                h, a = d2, d1
            else:
                require(False, bucket + ":latent-conditional", f"step {s}: latent draws are not from p(h|v_cur), p(a|v_cur) of the CURRENT parameters", got=[p1.tolist(), p2.tolist()], ref=[ph.tolist(), pa.tolist()])
            h, a = h.reshape(cur.shape[0], -1), a.reshape(cur.shape[0], -1)
            i += 2
        else:
            p1, d1 = calls[i]
            require(eq(p1.reshape(cur.shape[0], -1), ph), bucket + ":latent-conditional", f"step {s}: hidden draw is not from p(h|v_cur) of the CURRENT parameters", got=p1.tolist(), ref=ph.tolist())
            h, a = d1.reshape(cur.shape[0], -1), None
            i += 1
        pv = ref_visible_probs(sc, am, h, a)
        p3, d3 = calls[i]
        require(eq(p3.reshape(cur.shape[0], -1), pv), bucket + ":visible-conditional", f"step {s}: visible draw is not from p(v|h[,a]) of the CURRENT parameters", got=p3.tolist(), ref=pv.tolist())
        cur = d3.reshape(cur.shape[0], -1)
        i += 1
    return cur


def check_history(case):
    sc = case["state"]
    state = gen.build_state(sc)
    am = R.net_from_case(sc["am"])
    n = sc["n"]
    chain = None
    mon = Monitor(case["us"])
    real = torch.bernoulli
    handed_out = []       # (tensor returned by sample(), its value at that time, was it requested with overwrite=True later?)
    entered = []          # (number of monitored draws made before gibbs_steps was entered, clone of its start state)
    orig_gs = state.rbm_am.gibbs_steps

    def gs_spy(k, initial_state, overwrite=False):
        entered.append((len(mon.calls), initial_state.detach().clone().double()))
        return orig_gs(k, initial_state, overwrite=overwrite)

    state.rbm_am.gibbs_steps = gs_spy
    labels = set()
    steps_total = 0
    other_state = [None]
    try:
        torch.bernoulli = mon
        for op in case["ops"]:
            if op["op"] == "reparam":
                gen.set_net(state.rbm_am, case["alt"])
                am = R.net_from_case(case["alt"])
                continue
            if op["op"] == "reinit_reparam":
                # lifecycle: the sampled state is reinitialised (new parameter objects) and given the alternative parameters
                state.reinitialize_parameters()
                gen.set_net(state.rbm_am, case["alt"])
                am = R.net_from_case(case["alt"])
                labels.add("reinitialised")
                continue
            if op["op"] == "inside_fit":
                # re-entrant use: sample() called from INSIDE the callbacks of a running fit (after parameter updates): every draw comes from the
                # conditionals of the parameters the model has at that moment; afterwards the history goes on with the trained parameters
                from qucumber.callbacks import LambdaCallback
                import numpy as _np
                dat_ = R.rows_from_indices([0, (2 ** n) - 1, 1 % (2 ** n)], n)
                start_ = R.rows_from_indices([(2 ** n) - 1, 0], n)
                found_ = []

                def inside(s_):
                    am_now = {k_: v_.clone() for k_, v_ in gen.net_of(s_.rbm_am).items()}
                    i0_ = len(mon.calls)
                    res_ = s_.sample(2, initial_state=start_.clone())
                    try:
                        end_ = walk_steps(sc, am_now, start_.double(), mon.calls[i0_:], 2, "inside-fit-callback")
                        require(torch.equal(res_.double(), end_), "inside-fit-callback:result", "sample() inside a callback did not return the last visible draw")
                    except Exception as ex_:          # raised after the fit (an exception inside a callback would abort the run)
                        found_.append(ex_)
                state.fit(dat_, epochs=2, pos_batch_size=2, k=1, lr=0.1, callbacks=[LambdaCallback(on_batch_end=lambda s_, e_, b_: inside(s_), on_epoch_start=lambda s_, e_: inside(s_))],
                          **({} if sc["type"] == "positive" else {"input_bases": _np.array([["Z"] * n] * 3)}))
                state.stop_training = False
                if found_:
                    raise found_[0]
                am = {k_: v_.clone() for k_, v_ in gen.net_of(state.rbm_am).items()}
                if not all(bool(torch.isfinite(v_).all()) for v_ in am.values()):
                    return {"nontrivial": False, "excluded": 1, "labels": ["diverged"]}
                labels.add("sampled_inside_fit")
                continue
            if op["op"] == "refused":
                # after an exception: a sample() call that fails (start of the wrong width, non-integer k, a start that cannot be overwritten),
                # caught as a caller would; later calls - also after a parameter change - draw from the kernel of the CURRENT parameters
                try:
                    if op["how"] == "width":
                        state.sample(2, initial_state=torch.zeros(2, n + 1, dtype=torch.double))
                    elif op["how"] == "k_not_integer":
                        state.sample(1.5, num_samples=2)
                    else:
                        state.sample(2, initial_state=torch.zeros(1, n, dtype=torch.double).expand(3, n), overwrite=True)
                except Exception:
                    pass
                labels.add("after_refused_call")
                continue
            if op["op"] == "other_object":
                # shared class: ANOTHER state of the same class and sizes (other parameters) samples in between
                if other_state[0] is None:
                    other_state[0] = gen.build_state(dict(sc, am=case["alt"]))
                other_state[0].sample(2, num_samples=3)
                labels.add("other_object_sampled")
                continue
            mon.calls = []
            entered.clear()
            k = op["k"]
            if op["op"] == "fresh":
                res = state.sample(k, num_samples=op["m"])
                require(len(entered) == 1, "history:gibbs-steps-calls", "sample() must run the chains through the amplitude network's gibbs_steps exactly once")
                ndraws_before, start = entered[0]
                # the property does not fix HOW the random start is drawn; the start is whatever gibbs_steps was entered with
                require(tuple(start.shape) == (op["m"], n) and bool(torch.all((start == 0) | (start == 1))), "history:fresh-start",
                        "without an initial state the chains must start from num_samples rows of num_visible bits", shape=list(start.shape))
                calls, given, overwrite = mon.calls[ndraws_before:], None, False
                if k > 0 and not calls:
                    labels.add("monitor-inapplicable")
                    chain = res
                    continue
            else:
                if op["op"] == "continue" and chain is None:
                    continue
                if op["op"] == "start":
                    init = R.rows_from_indices(op["idx"], n)
                    if op["one_d"]:
                        init = init[0].clone()
                    if op.get("dtype") == "float32":
                        init = init.float()
                    host = None
                    if op.get("layout") == "strided":
                        # every second column of a larger tensor of the caller (the columns in between hold the caller's other data: 7.0)
                        host = torch.full(tuple(init.shape[:-1]) + (2 * n,), 7.0, dtype=init.dtype)
                        host[..., ::2] = init
                        init = host[..., ::2]
                    elif op.get("layout") == "transposed" and not op["one_d"]:
                        host = torch.full((n, init.shape[0]), 7.0, dtype=init.dtype)
                        host.copy_(init.t())
                        init = host.t()
                    host_meta = (tuple(init.shape), tuple(init.stride()), init.storage_offset())
                else:
                    init = chain
                before = init.clone()
                overwrite = op["overwrite"]
                res = state.sample(k, initial_state=init, overwrite=overwrite, num_samples=7)
                start, calls, given = before, list(mon.calls), init
            if k > 0 and not calls:
                labels.add("monitor-inapplicable")   # implementation no longer draws through torch.bernoulli: (c) decides
                chain = res
                continue
            cur = start.reshape(-1, n).double()
            i = 0
            per = 3 if sc["type"] == "density" else 2
            require(len(calls) == per * k, "history:draw-count",
                    f"{k} Gibbs step(s) must draw every latent layer once and the visible layer once per step: saw {len(calls)} draws, expected {per * k}")
            for s in range(k):
                ph, pa = ref_latent_probs(sc, am, cur)
                if sc["type"] == "density":
                    (p1, d1), (p2, d2) = calls[i], calls[i + 1]
                    p1, p2 = p1.reshape(cur.shape[0], -1), p2.reshape(cur.shape[0], -1)
                    if eq(p1, ph) and eq(p2, pa):
                        h, a = d1, d2
                    elif eq(p1, pa) and eq(p2, ph):
                        h, a = d2, d1
                    else:
                        require(False, "history:latent-conditional", f"step {s}: latent draws are not from p(h|v_cur), p(a|v_cur) of the current visible state",
                                got=[p1.tolist(), p2.tolist()], ref=[ph.tolist(), pa.tolist()])
                    h, a = h.reshape(cur.shape[0], -1), a.reshape(cur.shape[0], -1)
                    i += 2
                else:
                    p1, d1 = calls[i]
                    require(eq(p1.reshape(cur.shape[0], -1), ph), "history:latent-conditional", f"step {s}: hidden draw is not from p(h|v_cur) of the current visible state",
                            got=p1.tolist(), ref=ph.tolist())
                    h, a = d1.reshape(cur.shape[0], -1), None
                    i += 1
                pv = ref_visible_probs(sc, am, h, a)
                p3, d3 = calls[i]
                require(eq(p3.reshape(cur.shape[0], -1), pv), "history:visible-conditional", f"step {s}: visible draw is not from p(v|h[,a]) of the latent states just drawn",
                        got=p3.tolist(), ref=pv.tolist())
                cur = d3.reshape(cur.shape[0], -1)
                i += 1
            steps_total += k
            require(res.shape == start.shape, "history:shape", f"result shape {tuple(res.shape)} != start shape {tuple(start.shape)}")
            require(bool(torch.all((res == 0) | (res == 1))), "history:values", "samples are not 0/1")
            require(torch.equal(res.double().reshape(-1, n), cur), "history:result", "result is not the last visible draw of the chain")
            if given is not None:
                if overwrite and given.dtype != torch.double:
                    pass      # a tensor of another dtype cannot be updated in place (cf. the documented device exception); only the law is checked
                elif overwrite:
                    require(torch.equal(given.double(), res.double()) and given.data_ptr() == res.data_ptr(), "history:overwrite",
                            "overwrite=True must update the caller's start state in place (and return it)")
                    if op["op"] == "start" and host is not None:
                        # the start state was a view into a larger tensor: exactly the viewed elements hold the final chain states, the view itself
                        # still has the geometry it had, and the caller's other elements are untouched
                        require((tuple(given.shape), tuple(given.stride()), given.storage_offset()) == host_meta, "history:overwrite:view-geometry-changed",
                                f"overwrite=True changed the shape / strides of the caller's start tensor (a view into a larger tensor): {host_meta} -> {(tuple(given.shape), tuple(given.stride()), given.storage_offset())}")
                        if op.get("layout") == "strided":
                            require(torch.equal(host[..., ::2].double().reshape(-1, n), cur) and bool(torch.all(host[..., 1::2] == 7.0)), "history:overwrite:view-elements",
                                    "overwrite=True on a start state that is a strided view: the viewed elements do not hold the final chain states, or the caller's other elements were overwritten", host=host.tolist())
                        else:
                            require(torch.equal(host.t().double().reshape(-1, n), cur), "history:overwrite:view-elements", "overwrite=True on a transposed view: the viewed elements do not hold the final chain states")
                else:
                    require(torch.equal(given, before), "history:start-mutated", "the caller's start state was modified although overwrite=False")
                    if op["op"] == "start" and host is not None and op.get("layout") == "strided":
                        require(bool(torch.all(host[..., 1::2] == 7.0)) and (tuple(given.shape), tuple(given.stride()), given.storage_offset()) == host_meta, "history:start-mutated",
                                "the tensor the start state is a view of was modified although overwrite=False")
                    require(k == 0 or given.data_ptr() != res.data_ptr(), "history:alias", "result aliases the caller's start state although overwrite=False")
            # results of EARLIER calls (still held by the caller) must not change because of this call - unless the caller itself passed
            # them back with overwrite=True
            for old, val in handed_out:
                if given is not None and overwrite and old.data_ptr() == given.data_ptr():
                    continue
                require(torch.equal(old, val), "history:earlier-result-changed", "a tensor returned by an earlier sample() call changed during a later call")
            handed_out[:] = [(o, v) for o, v in handed_out if not (given is not None and overwrite and o.data_ptr() == given.data_ptr())]
            handed_out.append((res, res.detach().clone()))
            chain = res
    finally:
        torch.bernoulli = real
        state.rbm_am.gibbs_steps = orig_gs
    nt = nt_arch(sc) and steps_total >= 1 and mon.low and mon.high
    return {"nontrivial": nt, "labels": sorted(labels) + [f"type={sc['type']}"] + (["multi-call"] if sum(1 for o in case["ops"] if o["op"] not in ("reparam", "reinit_reparam", "other_object")) > 1 else [])}


# --------------------------------------------------------------------------- empirical law

M = 20000


@st.composite
def empirical(draw, tier):
    k = draw(st.sampled_from([1, 2, 3, 1, 2, 3, 17, 20, 37, 200]))
    # long chains (k up to 200) are drawn together with strong couplings: slowly mixing kernels, whose k-step law from a fixed start still
    # differs from the law after 16 or 32 steps
    sc = draw(gen.state_case(n=(1, 4), nh=(1, 4), na=(1, 3), scales=[0.5, 2.0], bound=40.0)) if k <= 3 else draw(gen.state_case(n=(2, 4), nh=(1, 2), na=(1, 2), scales=[2.0, 4.0, 6.0], bound=40.0))
    if k > 3 and draw(st.integers(0, 2)) > 0:
        sc["am"] = draw(gen.balanced_net(sc["n"], sc["nh"], sc.get("na") if sc["type"] == "density" else None))        # two-mode, slowly mixing kernel
    return {"state": sc, "k": k, "v0": draw(st.integers(0, 2 ** sc["n"] - 1)), "torch_seed": draw(st.integers(0, 2 ** 31 - 1)),
            "m": draw(st.integers(1, 5))}


def check_empirical(case):
    import qucumber
    sc = case["state"]
    n = sc["n"]
    D = 2 ** n
    state = gen.build_state(sc)
    V, lat, lw, T, pi = ref_kernel(sc)
    Tk = torch.linalg.matrix_power(T, case["k"])
    qucumber.set_random_seed(case["torch_seed"], cpu=True, gpu=False, quiet=True)
    start = V[case["v0"]].repeat(M, 1)
    keep = start.clone()
    res = state.sample(case["k"], initial_state=start)
    require(torch.equal(start, keep), "empirical:start-mutated", "start state modified although overwrite was not requested")
    require(res.shape == (M, n) and bool(torch.all((res == 0) | (res == 1))), "empirical:shape/values", "samples are not a 0/1 array of the start shape")
    idx = (res.double() @ (2.0 ** torch.arange(n - 1, -1, -1, dtype=torch.double))).long()
    f = torch.bincount(idx, minlength=D).double() / M
    eps = math.sqrt(math.log(2 * D * 1e12) / (2 * M))
    dev = float((f - Tk[case["v0"]]).abs().max())
    require(dev <= eps, "empirical:law", f"empirical k-step law deviates from row v0 of T_ref^k by {dev:.4f} > {eps:.4f} (Hoeffding bound, alpha=1e-12)",
            freq=f.tolist(), ref=Tk[case["v0"]].tolist())
    fresh = state.sample(case["k"], num_samples=case["m"])
    require(fresh.shape == (case["m"], n) and bool(torch.all((fresh == 0) | (fresh == 1))), "empirical:fresh-shape", "sample(k, num_samples=m) is not an (m, n) 0/1 array")
    # the default start is a RANDOM state: with k = 0 (the start itself is returned) 256 chains cannot all coincide, and two seeds differ
    qucumber.set_random_seed(case["torch_seed"], cpu=True, gpu=False, quiet=True)
    s1 = state.sample(0, num_samples=256)
    qucumber.set_random_seed(case["torch_seed"] + 1, cpu=True, gpu=False, quiet=True)
    s2 = state.sample(0, num_samples=256)
    require(s1.shape == (256, n) and bool(torch.all((s1 == 0) | (s1 == 1))), "empirical:fresh-shape", "sample(0, num_samples=256) is not a (256, n) 0/1 array")
    require(len({tuple(r) for r in s1.tolist()}) > 1 and not torch.equal(s1, s2), "empirical:default-start-not-random",
            "the default start state is not random: 256 fresh chains coincide, or two different seeds give the same 256 start states")
    # two calls in a row (no seeding in between) are two independent draws: the default start of the second call is not the first one's
    # again, and a chain continued across calls keeps moving (every call consumes fresh random numbers of the process-wide generator)
    qucumber.set_random_seed(case["torch_seed"], cpu=True, gpu=False, quiet=True)
    a0 = state.sample(0, num_samples=256)
    rng_mid = torch.get_rng_state()
    a1 = state.sample(0, num_samples=256)
    require(not torch.equal(a0, a1), "empirical:consecutive-calls-repeat", "two consecutive sample() calls returned the same 256 random start states (the second call re-used the first call's random numbers)")
    require(not torch.equal(torch.get_rng_state(), rng_mid), "empirical:consecutive-calls-repeat", "sample() left the process-wide torch generator where it was: the next call repeats its random numbers")
    if case["k"] >= 1:
        c1 = state.sample(1, initial_state=start)
        r1 = torch.get_rng_state()
        c2 = state.sample(1, initial_state=start)
        require(not torch.equal(torch.get_rng_state(), r1), "empirical:consecutive-calls-repeat", "a Gibbs step from given chains did not advance the process-wide torch generator")
        # M = 20000 chains from the same start: two independent one-step draws coincide on every chain only if the kernel row is a point mass
        if float(T[case["v0"]].max()) < 1 - 1e-3:
            require(not torch.equal(c1, c2), "empirical:consecutive-calls-repeat", "two consecutive one-step draws from the same start states are identical on all chains")
    unmixed = case["k"] > 16 and float((torch.linalg.matrix_power(T, 16)[case["v0"]] - Tk[case["v0"]]).abs().max()) > 2 * eps
    return {"nontrivial": nt_arch(sc), "labels": gen.arch_label(sc) + [f"k={case['k']}"] + (["law_after_16_steps_differs"] if unmixed else [])}


SUBCHECKS = [
    Sub("kernel", check_kernel, strategy=lambda tier: gen.state_case(n=(1, 4), nh=(1, 4), na=(1, 3), bound=100.0), quick=800, thorough=20000,
        nontrivial=nt_arch, labels=gen.arch_label),
    Sub("history", check_history, strategy=lambda tier: histories(tier), quick=800, thorough=20000),
    Sub("empirical", check_empirical, strategy=lambda tier: empirical(tier), quick=64, thorough=800, per_shard=4),
]
