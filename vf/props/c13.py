"""C13 - Streaming observable statistics equal the statistics of all drawn samples."""
import math

import numpy as np
import torch
from hypothesis import strategies as st

from vf import gen, refmodel as R
from vf.common import Sub, require

PROPERTY = "C13"
RULE = ("(merge) datasets of 2..40 generated floats (families: plain, constant, huge offset, mixed magnitudes); EVERY split point "
        "into two chunks and a drawn multi-way chunking (chunks >= 2 values) folded left to right with _update_statistics from the "
        "empty state; oracle numpy mean / var(ddof=1) / count. (statistics) ObservableBase.statistics and System.statistics with "
        "num_samples 2..30, num_chains in {0, 1, divisors, non-divisors, > num_samples}, burn_in 0..3, steps 0..3, user-provided "
        "initial chains with overwrite on/off, observables = built-ins, composites, SWAP and a deterministic test observable, 1-3 "
        "observables per System; state.sample is wrapped on the instance and records k, the start state identity and the chain "
        "states of every draw. Oracle: count = chains*draws >= requested; k sequence = [burn_in, steps, ...]; each draw continues "
        "the previous chains; mean/variance/std_error = one-pass numpy statistics of the per-draw apply values concatenated. "
        "Non-trivial = >= 2 draws and num_chains not dividing num_samples, or num_chains = 1.")
RULE_EXT = ('Extended as built: float32 user chains, 257-300 chains, composite observables over a shared view, value continuity between draws, default burn_in, Observable.sample under an identical torch seed, System.statistics_from_samples vs each observable alone. Round 6: statistics results returned earlier by the same System / observable object unchanged after later calls; merge data exactly 0 or >= 1e-100.')
RULE_EXT += ' Round 10 (after an exception / long time axis): an earlier statistics call on the SAME System / observable object aborted (after one complete draw) by an exception from an observable; composites of 10-15 nested sums that differ in the outermost term only, evaluated together.'
RULE_EXT += ' Round 11 (re-entrant use / feature interactions): a user observable whose apply() takes statistics of another observable on another state and of the batch it was handed; a composite of SigmaZ(absolute=True) next to the plain SigmaZ in one System.'
RULE = RULE + " " + RULE_EXT
ASSUMPTIONS = ["(merge) data values are exactly 0 or >= 1e-100 in magnitude (no variances in the denormal range)", "total drawn count >= 2 (the unbiased variance of a single value is undefined)", "rtol 1e-9 + atol 1e-12*scale^2 on variances"]


# ------------------------------------------------------------------ part 1: the merge routine
@st.composite
def datasets(draw, tier):
    fam = draw(st.sampled_from(["plain", "constant", "offset", "mixed", "repeated_block"]))
    n = draw(st.integers(2, 40))
    fl = st.floats(-10, 10, allow_nan=False, width=64)
    if fam == "constant":
        xs = [draw(fl)] * n
    else:
        xs = draw(st.lists(fl, min_size=n, max_size=n))
        if fam == "offset":
            off = draw(st.sampled_from([1e3, -1e5, 1e6]))
            xs = [x + off for x in xs]
        elif fam == "mixed":
            xs = [x * (10.0 ** ((i % 5) - 2)) for i, x in enumerate(xs)]
        elif fam == "repeated_block":
            # the data are one block repeated (second copy reversed): chunks with exactly equal means and variances are merged
            blk = xs[:max(2, n // 2)]
            xs = blk + blk[::-1] + (blk if draw(st.booleans()) else [])
    xs = [0.0 if abs(x) < 1e-100 else x for x in xs]       # squares of smaller numbers underflow in any float64 implementation (variance in the denormal range)
    cuts = sorted(set(draw(st.lists(st.integers(2, max(2, n - 2)), max_size=5))))
    return {"xs": xs, "cuts": cuts, "family": fam}


def check_merge(c):
    from qucumber.observables.utils import _update_statistics
    xs = np.array(c["xs"], dtype=np.float64)
    if bool(((np.abs(xs) > 0) & (np.abs(xs) < 1e-100)).any()):
        return {"excluded": 1, "nontrivial": False, "labels": ["excluded:denormal-range-data"]}     # outside the stated domain (see ASSUMPTIONS)
    n = len(xs)
    mean, var = float(np.mean(xs)), float(np.var(xs, ddof=1))
    scale = float(np.abs(xs).max()) + 1e-300
    stat = lambda a: (float(np.mean(a)), float(np.var(a, ddof=1)), len(a))

    def cmp(m, v, l, what):
        require(l == n, "merge:count", f"{what}: merged length {l} != {n}")
        require(abs(m - mean) <= 1e-12 * scale + 1e-9 * abs(mean), "merge:mean", f"{what}: merged mean {m} != {mean}")
        require(abs(v - var) <= 1e-9 * var + 1e-12 * scale * scale, "merge:variance", f"{what}: merged variance {v} != unbiased one-pass variance {var}")

    for s in range(2, n - 1):
        a, b = xs[:s], xs[s:]
        m0 = _update_statistics(0.0, 0.0, 0, *stat(a))
        cmp(*_update_statistics(*m0, *stat(b)), f"split at {s}")
    # multi-way chunking folded from the empty state
    cuts = [0] + [x for x in c["cuts"] if 2 <= x <= n - 2] + [n]
    cuts = sorted(set(cuts))
    chunks = [xs[i:j] for i, j in zip(cuts[:-1], cuts[1:]) if j - i >= 2]
    if sum(len(ch) for ch in chunks) == n:
        acc = (0.0, 0.0, 0)
        for ch in chunks:
            acc = _update_statistics(*acc, *stat(ch))
        cmp(*acc, f"chunking {cuts}")
    require(_update_statistics(0.0, 0.0, 0, 0.0, 0.0, 0) == (0.0, 0.0, 0), "merge:empty", "merging two empty statistics must give the empty statistics")
    return {"labels": ["family=" + c["family"]]}


# ------------------------------------------------------------------ part 2: statistics()
OBS = ["SigmaZ", "SigmaX", "SigmaY", "NI", "NIp", "composite", "composite2", "SWAP", "Det", "Site0x2", "Site0neg", "composite_abs", "Nested", "SigmaZ", "composite_abs"]


def make_obs(name, n):
    from qucumber.observables import NeighbourInteraction, SigmaX, SigmaY, SigmaZ, SWAP, ObservableBase
    if name == "SigmaZ":
        return SigmaZ()
    if name == "SigmaX":
        return SigmaX()
    if name == "SigmaY":
        return SigmaY(absolute=True)
    if name == "NI":
        return NeighbourInteraction(c=1)
    if name in ("deep_a", "deep_b", "deep_c"):
        # long composites: 10 to 15 nested sums SigmaZ + 1 - 0.5 ... whose members differ in the LAST (outermost) term only
        o = SigmaZ()
        for i in range({"deep_a": 9, "deep_b": 9, "deep_c": 14}[name]):
            o = o + 1 if i % 3 else o - 0.5
        return o + {"deep_a": 2, "deep_b": 5, "deep_c": 2}[name]
    if name == "composite_abs":
        return 2 * SigmaZ(absolute=True) + 1          # shares its leaf's NAME with the plain SigmaZ, not its values
    if name == "Nested":
        class Nested(ObservableBase):
            """re-entrant use: a user observable whose apply() itself takes statistics - of another observable on ANOTHER small state, and
            of the batch it was handed - before returning its own per-sample values"""
            def __init__(self):
                self.name, self.symbol = "Nested", "N"
                self.other = None
            def apply(self, nn_state, samples):
                from qucumber.nn_states import PositiveWaveFunction
                if self.other is None:
                    self.other = PositiveWaveFunction(2, 2, gpu=False)
                SigmaZ().statistics(self.other, num_samples=5, num_chains=2, burn_in=1, steps=1)
                SigmaX().statistics_from_samples(nn_state, samples.clone())
                return samples.double().sum(-1) * 0.5 - 0.125
        return Nested()
    if name == "NIp":
        return NeighbourInteraction(periodic_bcs=True, c=1)
    if name == "composite":
        return 2 * SigmaZ() - 1.5
    if name == "composite2":
        return -(SigmaX() + NeighbourInteraction(c=1)) * 0.5 + SigmaZ()
    if name == "SWAP":
        return SWAP([0])
    if name in ("Site0x2", "Site0neg"):
        class Site0(ObservableBase):
            """a user observable in the most natural style: the occupation of site 0, returned as a view of the sample tensor"""
            def __init__(self):
                self.name = "Site0"
                self.symbol = "n0"
            def apply(self, nn_state, samples):
                return samples[:, 0]
        return 2 * Site0() if name == "Site0x2" else 1 - Site0()
    class Det(ObservableBase):
        """deterministic test observable: the basis-state index of each sample (plus a row-position independent constant)"""
        def __init__(self):
            self.name = "Det"
            self.symbol = "D"
        def apply(self, nn_state, samples):
            w = 2.0 ** torch.arange(samples.shape[-1] - 1, -1, -1, dtype=torch.double)
            return (samples.double() @ w) * 0.37 + 1.0
    return Det()


@st.composite
def stat_cases(draw, tier):
    t = draw(st.sampled_from(gen.TYPES))
    ns = draw(st.integers(2, 30)) if draw(st.integers(0, 15)) else draw(st.integers(100, 400))     # occasionally many samples / chains
    mode = draw(st.sampled_from(["zero", "one", "divisor", "nondivisor", "larger", "any", "user", "user", "user"]))
    if ns >= 100 and draw(st.booleans()):
        mode = "zero" if draw(st.booleans()) else "many"
    if mode == "zero":
        nc = 0
    elif mode == "many":
        nc = draw(st.integers(257, 300))
    elif mode == "one":
        nc = 1
    elif mode == "divisor":
        nc = draw(st.sampled_from([d for d in range(1, ns + 1) if ns % d == 0]))
    elif mode == "nondivisor":
        nc = draw(st.sampled_from([d for d in range(2, ns + 1) if ns % d] or [ns + 3]))
    elif mode == "larger":
        nc = ns + draw(st.integers(1, 5))
    else:
        nc = draw(st.integers(0, ns + 2))
    c = {"type": t, "n": draw(st.integers(2, 3)), "num_samples": ns, "num_chains": nc, "burn_in": draw(st.integers(0, 3)), "steps": draw(st.integers(0, 3)),
         "obs": draw(st.lists(st.sampled_from(OBS), min_size=1, max_size=3, unique=True)) if draw(st.integers(0, 7)) else
                draw(st.lists(st.sampled_from(["deep_a", "deep_b", "deep_c", "SigmaZ"]), min_size=2, max_size=4, unique=True)),
         "system": draw(st.booleans()), "aborted_first": draw(st.integers(0, 3)) == 0,
         "seed": draw(st.integers(0, 2 ** 31 - 1)), "mode": mode,
         "defaults": draw(st.integers(0, 19)) == 0}      # omit burn_in / steps: documented defaults 1000 / 1
    if mode == "user":
        c["user_chains"] = draw(gen.index_list(c["n"], 1, 6))
        c["overwrite"] = draw(st.booleans())
        c["user_dtype"] = draw(st.sampled_from(["float64", "float32"]))   # torch's default dtype is what torch.bernoulli(torch.full(...)) gives a user
    return c


def steps_positive(c, i):
    return True


def check_stats(c):
    import qucumber
    from qucumber.nn_states import ComplexWaveFunction, DensityMatrix, PositiveWaveFunction
    from qucumber.observables import System
    n = c["n"]
    qucumber.set_random_seed(c["seed"], cpu=True, gpu=False, quiet=True)
    state = {"positive": lambda: PositiveWaveFunction(n, 2, gpu=False), "complex": lambda: ComplexWaveFunction(n, 2, gpu=False),
             "density": lambda: DensityMatrix(n, 2, 2, gpu=False)}[c["type"]]()
    for net in state.networks:
        for p in getattr(state, net).parameters():
            p.data.copy_(torch.randn_like(p))
    if c["type"] == "density":
        state.rbm_ph.aux_bias.data.zero_()
    calls = []
    orig = state.sample

    def sample(k, num_samples=1, initial_state=None, overwrite=False):
        init_vals = None if initial_state is None else initial_state.detach().clone().double()
        r = orig(k=k, num_samples=num_samples, initial_state=initial_state, overwrite=overwrite)
        calls.append(dict(k=k, num_samples=num_samples, init=initial_state, init_vals=init_vals, res=r, res_vals=r.clone(), overwrite=overwrite))
        return r

    state.sample = sample
    ns, nc_req = c["num_samples"], c["num_chains"]
    user = None
    kw = dict(num_samples=ns, num_chains=nc_req, burn_in=c["burn_in"], steps=c["steps"])
    if c.get("defaults"):
        kw = dict(num_samples=ns, num_chains=nc_req)
        c = dict(c, burn_in=1000, steps=1)
    if "user_chains" in c:
        user = R.rows_from_indices(c["user_chains"], n)
        if c.get("user_dtype") == "float32":
            user = user.float()
        user_keep = user.clone()
        kw.update(initial_state=user, overwrite=c["overwrite"])
        chains = len(c["user_chains"])
    else:
        chains = min(nc_req, ns) if nc_req != 0 else ns
    draws = math.ceil(ns / chains)
    total = chains * draws
    if total < 2:
        return {"excluded": 1, "nontrivial": False}
    obs = [make_obs(o, n) for o in c["obs"]]
    names = [o.name for o in obs]
    sysobj = System(*obs)

    def abort_one(run):
        """after an exception: an earlier statistics call on the SAME System / observable object that was aborted, after at least one complete
        draw, by an exception from a (user) observable and caught by the caller"""
        victim = obs[-1]
        real_apply, seen = victim.apply, []

        def moody(nn_state, samples):
            seen.append(1)
            if len(seen) >= 2:
                raise RuntimeError("user observable refuses this batch")
            return real_apply(nn_state, samples)

        victim.apply = moody
        try:
            run(dict(num_samples=7, num_chains=2, burn_in=1, steps=1))
        except RuntimeError:
            pass
        finally:
            del victim.apply
        calls.clear()
        if user is not None:
            user.copy_(user_keep)

    if c["system"]:
        if c.get("aborted_first"):
            abort_one(lambda kw_: sysobj.statistics(state, **kw_))
        res = sysobj.statistics(state, **kw)
        require(isinstance(res, dict) and set(res.keys()) == set(names), "system:keys", f"System.statistics keys {sorted(res.keys())} != {sorted(names)}")
        all_calls = [calls]
        results = {nm: res[nm] for nm in names}
        per_obs_calls = {nm: calls for nm in names}
    else:
        results, per_obs_calls = {}, {}
        for o in obs:
            if c.get("aborted_first") and o is obs[-1]:
                abort_one(lambda kw_: o.statistics(state, **kw_))
            calls.clear()
            if user is not None:
                user.copy_(user_keep)
            results[o.name] = o.statistics(state, **kw)
            per_obs_calls[o.name] = list(calls)
    for o in obs:
        cl = per_obs_calls[o.name]
        r = results[o.name]
        require(set(r.keys()) >= {"mean", "variance", "std_error", "num_samples"}, "result:keys", f"result keys {sorted(r.keys())}")
        require(len(cl) == draws, "draw-count", f"{len(cl)} draws for num_samples={ns}, chains={chains}: expected ceil = {draws}")
        require([x["k"] for x in cl] == [c["burn_in"]] + [c["steps"]] * (draws - 1), "gibbs-schedule",
                f"Gibbs-step schedule {[x['k'] for x in cl]} != burn-in once then 'steps' between draws", burn_in=c["burn_in"], steps=c["steps"])
        for i, x in enumerate(cl):
            require(tuple(x["res_vals"].shape) == (chains, n), "chain-shape", f"draw {i}: chain states of shape {tuple(x['res_vals'].shape)}, expected {(chains, n)}")
            if i == 0:
                if user is None:
                    require(x["init"] is None and x["num_samples"] == chains, "first-draw", "first draw must start num_chains fresh chains")
                else:
                    require(x["init"] is not None and tuple(x["init"].shape) == (chains, n), "first-draw", "first draw must start from the user's chains")
            else:
                require(x["init"] is cl[i - 1]["res"] or (x["init"] is not None and x["init"].data_ptr() == cl[i - 1]["res"].data_ptr()) or
                        (x["init"] is not None and x["init"].shape == cl[i - 1]["res_vals"].shape and torch.equal(x["init"].double(), cl[i - 1]["res_vals"].double()) and steps_positive(c, i)),
                        "chain-continuity", f"draw {i} does not continue the chains of draw {i - 1}")
                require(x["init_vals"] is not None and x["init_vals"].shape == cl[i - 1]["res_vals"].shape and torch.equal(x["init_vals"], cl[i - 1]["res_vals"].double()),
                        "chain-continuity:values", f"draw {i} starts from states that differ from what draw {i - 1} returned (the chain states were altered between draws)")
        vals = torch.cat([o.apply(state, x["res_vals"].clone()).double().reshape(-1) for x in cl]).numpy()
        require(r["num_samples"] == total and r["num_samples"] >= ns, "count", f"reported num_samples {r['num_samples']} != chains*draws = {total} (requested {ns})")
        mean, var = float(np.mean(vals)), float(np.var(vals, ddof=1))
        sc = float(np.abs(vals).max()) + 1e-300
        require(abs(r["mean"] - mean) <= 1e-9 * abs(mean) + 1e-12 * sc, "mean", f"{o.name}: reported mean {r['mean']} != one-pass mean {mean} over all {total} drawn samples")
        require(abs(r["variance"] - var) <= 1e-9 * var + 1e-12 * sc * sc, "variance", f"{o.name}: reported variance {r['variance']} != unbiased one-pass variance {var}",
                chains=chains, draws=draws)
        se = math.sqrt(var / total)
        require(abs(r["std_error"] - se) <= 1e-9 * se + 1e-12 * sc, "std_error", f"{o.name}: reported std_error {r['std_error']} != sqrt(var/count) = {se}")
    if user is not None:
        if c["overwrite"] and user.dtype == torch.double:   # a tensor of another dtype cannot be updated in place (cf. the documented device exception)
            last = per_obs_calls[obs[-1].name][-1]["res_vals"]
            require(torch.equal(user, last), "overwrite", "with overwrite=True the user's initial_state must hold the final chain states")
        else:
            require(torch.equal(user, user_keep), "initial-state-mutated", "the user's initial_state was modified although overwrite=False")
    # other public entry points: Observable.sample (= apply of what the state samples) and System.statistics_from_samples
    probe = R.rows_from_indices([k % (2 ** n) for k in range(5)], n)
    for o in obs:
        torch.manual_seed(c["seed"] % 1000 + 17)
        direct = o.apply(state, orig(k=2, num_samples=1, initial_state=probe.clone(), overwrite=False)).double()
        torch.manual_seed(c["seed"] % 1000 + 17)
        via = o.sample(state, 2, initial_state=probe.clone()).double()
        require(direct.shape == via.shape and bool(torch.all((direct - via).abs() <= 1e-12 * (1 + direct.abs()))), "observable.sample",
                f"{o.name}.sample(...) is not apply() of the states the model samples under the same seed")
    sys_fs = System(*obs).statistics_from_samples(state, probe.clone())
    for o in obs:
        alone = o.statistics_from_samples(state, probe.clone())
        require(set(sys_fs[o.name].keys()) == set(alone.keys()) and all((sys_fs[o.name][k_] == alone[k_]) or (sys_fs[o.name][k_] != sys_fs[o.name][k_] and alone[k_] != alone[k_]) for k_ in alone),
                "system.statistics_from_samples", f"System.statistics_from_samples gives {o.name} a result different from the observable alone")
    # results belong to the caller: what an earlier statistics call returned must not change when the same System / observable object
    # is asked again (other seed, other sample count)
    import copy as _copy
    sy = System(*obs)
    torch.manual_seed(11)
    r1 = sy.statistics(state, num_samples=6, num_chains=3, burn_in=1, steps=1)
    k1 = _copy.deepcopy(r1)
    torch.manual_seed(12)
    r2 = sy.statistics(state, num_samples=9, num_chains=3, burn_in=0, steps=1)
    k2 = _copy.deepcopy(r2)
    o1 = obs[0].statistics(state, num_samples=4, num_chains=2, burn_in=0, steps=1)
    ko1 = dict(o1)
    obs[0].statistics(state, num_samples=8, num_chains=2, burn_in=0, steps=1)
    sy.statistics_from_samples(state, probe.clone())
    eqd = lambda a, b: a.keys() == b.keys() and all((a[k_] == b[k_]) or (a[k_] != a[k_] and b[k_] != b[k_]) for k_ in a)
    require(r1.keys() == k1.keys() and all(eqd(r1[nm], k1[nm]) for nm in k1) and all(eqd(r2[nm], k2[nm]) for nm in k2) and eqd(o1, ko1), "ownership:earlier-result-changed",
            "a statistics result returned earlier changed when the same System / observable object was asked again")
    require(all(r1[nm]["num_samples"] == 6 and r2[nm]["num_samples"] == 9 for nm in k1), "ownership:earlier-result-changed", "held statistics results report the wrong sample counts")
    # default names: a user-defined observable that sets no name is called after its class - also when it derives from another user-defined
    # observable whose name has been read before (lifecycle order: base first)
    from qucumber.observables import ObservableBase

    class BaseObs(ObservableBase):
        def apply(self, nn_state, samples):
            return samples.double().sum(-1)

    class DerivedObs(BaseObs):
        def apply(self, nn_state, samples):
            return 2.0 * samples.double().sum(-1) + 1.0

    b_, d_ = BaseObs(), DerivedObs()
    first_name = b_.name
    sfs = System(b_, d_).statistics_from_samples(state, probe.clone())
    require(first_name == "BaseObs" and d_.name == "DerivedObs" and set(sfs.keys()) == {"BaseObs", "DerivedObs"}, "default-name",
            f"default names of user-defined observables: base {first_name!r}, derived {d_.name!r}, System keys {sorted(sfs.keys())}")
    require(abs(sfs["DerivedObs"]["mean"] - (2.0 * sfs["BaseObs"]["mean"] + 1.0)) <= 1e-12 * (1 + abs(sfs["BaseObs"]["mean"])), "default-name",
            "the statistics reported under the derived observable's name are not those of the derived observable")
    nt = (draws >= 2 and ns % chains != 0) or chains == 1
    return {"nontrivial": nt, "labels": [f"type={c['type']}", "mode=" + c["mode"], "system" if c["system"] else "single"] + (["chains=1"] if chains == 1 else []) + [f"draws>=2"] * (draws >= 2)}


SUBCHECKS = [
    Sub("merge", check_merge, strategy=lambda tier: datasets(tier), quick=4000, thorough=100000),
    Sub("statistics", check_stats, strategy=lambda tier: stat_cases(tier), quick=960, thorough=16000),
]
