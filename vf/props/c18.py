"""C18 - Early stopping halts exactly when its documented convergence rule is met."""
import math
import warnings

import numpy as np
import torch
from hypothesis import strategies as st

from vf.common import Sub, require, expect_raises

PROPERTY = "C18"
RULE = ("Generated scripted value sequences (families: monotone, oscillating, constant, with exact zeros, geometric, random; python "
        "floats or numpy floats), patience 1..5, evaluator period and stopper period 1..3 (equal or different), criterion in "
        "{relative, absolute, variance}, tolerance in {0, drawn, 1e300, inf}; driven through a REAL fit() of a 1-qubit model with a "
        "MetricEvaluator whose metric returns the next scripted value, or (variance) an ObservableEvaluator with a scripted observable "
        "returning [mu-d, mu+d]; the evaluator is listed before the stopper. Oracle: a reference decision procedure on the same "
        "sequence: at each checked epoch stop iff at least p+1 evaluations exist and dev(L[-1-p], L[-1]) < tol. fit must end at "
        "exactly that epoch (event trace, last_epoch, stop_training) or run to completion. Non-trivial = the rule fires strictly "
        "after the first admissible check, or never, with patience >= 1 (and periods different in part of the cases).")
RULE_EXT = ('Extended as built: the recorded value the evaluator actually stored (torch.var_mean for variance) feeds the reference, two rounds with clear_history in between, evaluator given as metric or observable, default criterion, construction-time validation. Round 5: starting_epoch 1..4, evaluators that track other quantities besides the monitored one, variance_name passed to the deprecated class (documented as ignored), a second stopper (tolerance 0) on the same evaluator before or after the first.')
RULE_EXT += ' Round 10 (after an exception / long time axis): scripts of 66-110 evaluations (slowly converging with the tolerance just above the deviation of evaluation 60-77, periodic with period 31-65, random); between two rounds a fit() whose evaluation fails after the monitored metric was computed (caught), the unrecorded value recurring in 3 of 4 such cases.'
RULE_EXT += ' Round 11 (re-entrant use / feature interactions): evaluator.clear_history() called from a callback at the start of a chosen epoch of the running fit (modelled by the reference); a busy callback.'
RULE = RULE + " " + RULE_EXT
ASSUMPTIONS = ["comparisons whose reference value (relative criterion) is exactly 0, and comparisons within 1e-9 relative of the "
               "tolerance, are undefined/borderline: the run is cut just before the first such check (counted, label 'truncated'); a standard "
               "deviation of exactly 0 (variance criterion) is a defined case: the standardised change is infinite or 0/0 and never below the tolerance",
               "the stopper may be listed before or after its evaluator: listed before, it sees at epoch e the evaluations recorded up to the previous epoch"]


@st.composite
def scripts(draw, tier):
    crit = draw(st.sampled_from(["relative", "absolute", "variance"]))
    fam = draw(st.sampled_from(["monotone", "oscillating", "constant", "zeros", "geometric", "random"]))
    L = draw(st.integers(2, 12))
    long_ = draw(st.integers(0, 5)) == 0
    if long_:
        # long time axis: histories of 66 to 110 evaluations in one run (slowly converging, periodic with a period in the thirties, or random)
        L = draw(st.integers(66, 110))
        fam = draw(st.sampled_from(["geometric", "geometric", "geometric", "periodic", "periodic", "random"]))
    fl = st.floats(-5, 5, allow_nan=False, width=64)
    base = draw(fl)
    if fam == "monotone":
        steps = draw(st.lists(st.floats(0, 1, allow_nan=False, width=64), min_size=L, max_size=L))
        vals = list(np.cumsum(steps) + base)
    elif fam == "oscillating":
        amp = draw(st.floats(0, 2, allow_nan=False, width=64))
        vals = [base + amp * ((-1) ** i) / (1 + i * draw(st.sampled_from([0, 1]))) for i in range(L)]
    elif fam == "constant":
        vals = [base] * L
    elif fam == "zeros":
        vals = [draw(st.sampled_from([0.0, 0.0, 1.0, -1.0, 0.5])) for _ in range(L)]
    elif fam == "periodic":
        P_ = draw(st.sampled_from([31, 32, 33, 34, 35, 64, 65]))
        cyc = draw(st.lists(fl, min_size=P_, max_size=P_))
        vals = [cyc[i % P_] for i in range(L)]
    elif fam == "geometric":
        r = draw(st.floats(0.9 if long_ else 0.1, 0.99, allow_nan=False, width=64))
        vals = [base * r ** i + 1.0 for i in range(L)]
    else:
        vals = draw(st.lists(fl, min_size=L, max_size=L))
    c = {"criterion": crit, "family": fam, "vals": [float(v) for v in vals], "patience": draw(st.integers(1, 5)),
         "pe": draw(st.integers(1, 3)), "ps": draw(st.integers(1, 3)),
         "tol": draw(st.one_of(st.sampled_from([0.0, 1e300, float("inf"), 0.1, 0.5]), st.floats(1e-6, 3, allow_nan=False, width=64))),
         "np_float": draw(st.booleans()), "crit_spelling": draw(st.sampled_from(["plain", "upper", "spaces"])),
         "deprecated_class": draw(st.booleans())}
    if long_:
        c["tol"] = draw(st.sampled_from([0.0, 0.0, 1e-9, c["tol"]]))
        c["pe"] = c["ps"] = 1
    c["evaluator"] = "observable" if crit == "variance" else draw(st.sampled_from(["metric", "metric", "observable"]))
    if c["evaluator"] == "observable":
        c["ds"] = draw(st.lists(st.sampled_from([0.0, 0.1, 0.5, 1.0, 2.0]), min_size=L, max_size=L))
    c["criterion_arg"] = "default" if (crit == "relative" and draw(st.booleans())) else "explicit"    # 'relative' is the documented default
    c["rounds"] = draw(st.sampled_from([1, 1, 2]))      # a second fit() re-using the same evaluator and stopper (epoch numbers restart)
    c["clear_between"] = draw(st.booleans())           # ... with or without evaluator.clear_history() in between
    if draw(st.integers(0, 3)) == 0 or (crit == "variance" and draw(st.integers(0, 3)) > 0):
        # tolerance placed a few 1e-8 (relative) above or below one of the deviations the run will actually see: the decision is still well
        # defined in double precision (the reference cuts runs only within 1e-9), but not for an implementation that loses digits
        # "j": mostly the first comparisons the run makes (later ones are often pre-empted by an earlier stop)
        c["tol_near"] = {"j": draw(st.sampled_from([0, 0, 1, 2, 3, 5, 8, 11]) if not long_ else st.integers(55, 72)), "sign": draw(st.sampled_from([-1, 1])), "delta": draw(st.sampled_from([1e-8, 1e-8, 3e-8, 1e-7, 1e-6]))}
    c["stopper_first"] = draw(st.integers(0, 3)) == 0    # the stopper listed BEFORE its evaluator: at epoch e it sees the evaluations recorded up to the previous epoch
    c["se"] = draw(st.sampled_from([1, 1, 1, 2, 3, 4]))  # starting_epoch: epochs are numbered se..E, periods refer to the epoch NUMBER
    c["extra_names"] = draw(st.booleans())              # the evaluator tracks other quantities besides the monitored one
    c["variance_name"] = draw(st.sampled_from([None, "m", "a", "m_variance"]))    # deprecated class only: documented as ignored
    c["second_stopper"] = draw(st.sampled_from([None, None, "before", "after"]))
    c["abort_between"] = draw(st.integers(0, 2)) == 0
    if c["abort_between"] and crit != "variance":
        c["rounds"], c["extra_names"], c["evaluator"], c["stopper_first"] = 2, True, "metric", False
        c.pop("ds", None)
        if draw(st.integers(0, 3)) > 0:
            # ... and the next fit() checks the rule BEFORE its first evaluation (stopper period 1, evaluator period 2 or 3, history kept)
            c["clear_between"], c["pe"], c["ps"], c["se"], c["patience"] = False, draw(st.sampled_from([2, 3])), 1, 1, min(c["patience"], 2)
            Lr_ = max(1, len(c["vals"]) // 2)
            if draw(st.integers(0, 3)) > 0 and Lr_ - 1 - c["patience"] >= 0 and Lr_ < len(c["vals"]):
                if c["tol"] in (0.0, 1e300, float("inf")):
                    c["tol"] = draw(st.sampled_from([1e-3, 0.05, 0.3]))
                # the value that the failing evaluation computes (and never records) recurs: it equals the recorded value the rule looks back to
                c["vals"][Lr_] = c["vals"][Lr_ - 1 - c["patience"]]
    if long_ and fam == "geometric":
        # slowly converging long run: the tolerance sits just above the deviation of an evaluation between the 60th and the 77th, which is
        # then the first one to meet the rule
        c["tol_near"] = {"j": draw(st.integers(55, 72)), "sign": draw(st.sampled_from([1, 1, 1, -1])), "delta": draw(st.sampled_from([1e-8, 1e-6, 1e-3]))}
    if not long_ and draw(st.integers(0, 3)) == 0:
        m_ = draw(st.integers(1, 8))
        c["clear_at"] = c["se"] + m_      # re-entrant use: evaluator.clear_history() called from a callback at the start of this epoch
        if 2 <= m_ <= 4 and crit != "variance" and draw(st.booleans()):
            # ... aligned so that the rule is first met when the cleared history has grown back to the length it had at the last check before
            # the clear (slowly converging values, evaluator and stopper period 1, the tolerance just above the deviation of that evaluation)
            p_ = draw(st.integers(1, m_ - 1))
            r_, b0_ = draw(st.floats(0.5, 0.9, allow_nan=False, width=64)), draw(st.floats(0.5, 3.0, allow_nan=False, width=64))
            Lg_ = 2 * m_ + 2
            c["vals"] = [b0_ * r_ ** i_ + 1.0 for i_ in range(Lg_)]
            if c.get("ds"):
                c["ds"] = (c["ds"] * Lg_)[:Lg_]
            # (stopper period 1, or = the number of evaluations before the clear: then the stopper's last check before the clear saw exactly as
            # many evaluations as its next check after it)
            c.update(patience=p_, pe=1, ps=draw(st.sampled_from([1, m_, m_])), rounds=1, family="geometric", stopper_first=False, abort_between=False, se=1, clear_at=1 + m_)
            c["tol_near"] = {"j": 2 * m_ - 1 - p_, "sign": 1, "delta": 1e-3}
    c["second_same_quantity"] = draw(st.booleans())  # another stopper on the SAME evaluator (other quantity, other patience, tolerance 0: never fires)
    return c


def dev(c, a, b, var_a):
    if c["criterion"] == "relative":
        return None if a == 0 else abs((a - b) / a)
    if c["criterion"] == "absolute":
        return abs(a - b)
    if var_a == 0:
        # documented rule |M_{t-p} - M_t| / sigma_{t-p} < kappa with sigma = 0: the standardised change is infinite (or 0/0): never "< kappa"
        return float("inf") if a != b else float("nan")
    return abs(a - b) / math.sqrt(var_a)


def recorded_value(c, i):
    """(value, variance) the evaluator records for scripted evaluation i.  For the scripted observable the library reduces the two
    values [mu-d, mu+d] with torch.var_mean; the same reduction is used here so that both sides see bit-identical floats
    (e.g. mu = 1e-296, d = 1 gives a mean of exactly 0)."""
    mu = c["vals"][i]
    if not c.get("ds"):
        return (mu, None)
    d = c["ds"][i]
    var, mean = torch.var_mean(torch.tensor([mu - d, mu + d], dtype=torch.double))
    return (mean.item(), var.item())


def reference(c, E, L=None, counter=None):
    """-> (stop_epoch or None, cut_epoch or None): decision procedure on the scripted sequence.
    L = evaluations recorded in earlier rounds (the history is kept in call order across fit() calls)."""
    L = [] if L is None else L
    counter = [len(L)] if counter is None else counter       # index into the script = evaluations made so far (survives clear_history)
    p, tol = c["patience"], c["tol"]
    for e in range(c.get("se", 1), E + 1):
        if c.get("clear_at") is not None and e == c["clear_at"]:
            del L[:]                # a user callback clears the evaluator's history at the start of this epoch (inside the running fit)
        def evaluate():
            i = counter[0]
            if i >= len(c["vals"]):
                return False
            L.append(recorded_value(c, i))
            counter[0] += 1
            return True
        if not c.get("stopper_first") and e % c["pe"] == 0 and not evaluate():
            return None, e              # script exhausted: cut here
        stop_now = False
        if e % c["ps"] == 0 and len(L) >= p + 1:
            a, va = L[-1 - p]
            b, _ = L[-1]
            d = dev(c, a, b, va)
            exact = (d == tol) and (c["criterion"] != "variance" or d == 0)   # same IEEE operations as the library: equality is well defined
            if d is None or (not exact and math.isfinite(d) and math.isfinite(tol) and abs(d - tol) <= 1e-9 * (abs(d) + abs(tol))):
                return None, e          # undefined / borderline comparison: cut the run before this epoch
            if d < tol:          # False for nan (0/0) and for inf
                stop_now = True
        if c.get("stopper_first") and e % c["pe"] == 0 and not evaluate():
            return None, e              # (the evaluator listed after the stopper still records this epoch's value, stop or not)
        if stop_now:
            return e, None
    return None, None


def plan_rounds(c):
    """-> list of (E, stop_epoch) per fit() round, truncated before the first undefined / borderline comparison."""
    nr = c.get("rounds", 1)
    Ltot = len(c["vals"])
    lens = [Ltot] if nr == 1 else [max(1, Ltot // 2), Ltot - max(1, Ltot // 2)]
    plan, hist, truncated, done = [], [], False, 0
    abort_info = None
    c["_abort_info"] = None
    for Lr in lens:
        if Lr < 1:
            break
        E = (c.get("se", 1) - 1) + Lr * c["pe"] + (c["pe"] - 1)
        h, cnt = list(hist), [done]
        stop_e, cut = reference(c, E, h, cnt)
        if cut is not None:
            truncated = True
            E = cut - 1
            if E < c.get("se", 1):
                break
            h, cnt = list(hist), [done]
            stop_e, cut2 = reference(c, E, h, cnt)
            assert cut2 is None
        plan.append((E, stop_e))
        done = cnt[0]
        hist = h
        if truncated:
            break
        if len(plan) == 1 and nr == 2 and c.get("abort_between") and not c.get("stopper_first") and c.get("evaluator") == "metric" and c.get("extra_names") and done < Ltot - 1:
            # the aborted fit: epochs se .. E_ab, the evaluation at E_ab (the first multiple of the evaluator's period) consumes one scripted
            # value and then fails; stopper checks in the epochs before it see the unchanged history
            E_ab = next(e for e in range(c.get("se", 1), c.get("se", 1) + c["pe"] + 1) if e % c["pe"] == 0)
            h2, cnt2 = list(hist), [done]
            stop_ab, cut_ab = reference(dict(c, pe=10 ** 9), E_ab - 1, h2, cnt2) if E_ab - 1 >= c.get("se", 1) else (None, None)
            if cut_ab is not None:
                break
            abort_info = {"E_ab": E_ab, "stop_ab": stop_ab}
            if stop_ab is None:
                done += 1
        if c.get("clear_between"):
            hist = []
    c["_abort_info"] = abort_info if len(plan) == 2 or abort_info is None else abort_info
    return plan, truncated


def check(c):
    from qucumber.callbacks import EarlyStopping, LambdaCallback, MetricEvaluator, ObservableEvaluator, VarianceBasedEarlyStopping
    from qucumber.nn_states import PositiveWaveFunction
    from qucumber.observables import ObservableBase
    if c.get("tol_near"):
        p_, L_ = c["patience"], len(c["vals"])
        if L_ > p_:
            j_ = p_ + c["tol_near"]["j"] % (L_ - p_)
            (a_, va_), (b_, _) = recorded_value(c, j_ - p_), recorded_value(c, j_)
            d_ = dev(c, a_, b_, va_)
            if d_ is not None and math.isfinite(d_) and d_ > 0:
                c = dict(c, tol=d_ * (1 + c["tol_near"]["sign"] * c["tol_near"]["delta"]))
    plan, truncated = plan_rounds(c)
    labels = ["criterion=" + c["criterion"], "family=" + c["family"], f"p={c['patience']}", "evaluator=" + c.get("evaluator", "metric")] + (["periods_differ"] if c["pe"] != c["ps"] else []) + ([f"starting_epoch>1"] if c.get("se", 1) > 1 else []) + (["extra_names"] if c.get("extra_names") else []) + (["tolerance_near_a_deviation"] if c.get("tol_near") else [])
    if truncated:
        labels.append("truncated")
    if not plan:
        return {"excluded": 1, "nontrivial": False, "labels": labels}
    E, stop_e = plan[0]
    state = PositiveWaveFunction(1, 1, gpu=False)
    data = torch.tensor([[0.0], [1.0]], dtype=torch.double)
    counter = [0]
    conv = (lambda v: np.float64(v)) if c["np_float"] else float
    if c.get("evaluator", "observable" if c["criterion"] == "variance" else "metric") == "observable":
        class Scripted(ObservableBase):
            def __init__(self):
                self.name = "m"
                self.symbol = "m"
            def apply(self, nn_state, samples):
                i = counter[0]
                counter[0] += 1
                mu, d = c["vals"][i], (c["ds"][i] if c.get("ds") else 0.5)
                return torch.tensor([mu - d, mu + d], dtype=torch.double)
        class Const(ObservableBase):
            def __init__(self, name, v):
                self.name = self.symbol = name
                self.v = v
            def apply(self, nn_state, samples):
                return torch.tensor([self.v, self.v + 1.0], dtype=torch.double)
        obs_list = [Const("a", 7.0), Scripted(), Const("z", -3.0)] if c.get("extra_names") else [Scripted()]
        ev = ObservableEvaluator(c["pe"], obs_list, num_samples=2, num_chains=2, burn_in=0, steps=0)
    else:
        def metric(nn_state, **kw):
            i = counter[0]
            counter[0] += 1
            return conv(c["vals"][i])

        def moody(s_, **kw):
            if moody_on:
                raise RuntimeError("a metric failed")
            return -3.0
        moody_on = []
        ev = MetricEvaluator(c["pe"], {"a": (lambda s_, **kw: 7.0), "m": metric, "z": moody} if c.get("extra_names") else {"m": metric})
    spell = {"plain": c["criterion"], "upper": c["criterion"].upper(), "spaces": "  " + c["criterion"].capitalize() + " "}[c["crit_spelling"]]
    if c["criterion"] == "variance" and c["deprecated_class"]:
        with warnings.catch_warnings(record=True) as w:
            warnings.simplefilter("always")
            es = VarianceBasedEarlyStopping(c["ps"], c["tol"], c["patience"], ev, "m", **({"variance_name": c["variance_name"]} if c.get("variance_name") else {}))
        require(any(issubclass(x.category, DeprecationWarning) for x in w), "deprecated-class:no-warning", "VarianceBasedEarlyStopping did not emit a DeprecationWarning")
        labels.append("deprecated_class")
    elif c.get("criterion_arg") == "default" and c["criterion"] == "relative":
        es = EarlyStopping(c["ps"], c["tol"], c["patience"], ev, "m")          # criterion left at its documented default ('relative')
        labels.append("criterion_default")
    else:
        es = EarlyStopping(c["ps"], c["tol"], c["patience"], ev, "m", criterion=spell)
    ends = []
    rec = LambdaCallback(on_epoch_end=lambda s, e: ends.append(e))
    stoppers = [es]
    if c.get("second_same_quantity") and c["criterion"] == "relative":
        c = dict(c, second_same_quantity=False)      # a relative change against a scripted value of exactly 0 is undefined; the main stopper's run is cut before such a check, the second one's lag is not tracked
    if c.get("second_stopper") and (c.get("extra_names") or c.get("second_same_quantity")):
        # another stopper on the SAME evaluator (never fires: tolerance 0), with another patience; it watches another quantity or the same one
        es2 = EarlyStopping(1, 0.0, 1 if c["patience"] > 1 else 2, ev, "m" if c.get("second_same_quantity") else "a", criterion=c["criterion"])
        stoppers = [es2, es] if c["second_stopper"] == "before" else [es, es2]
        labels.append("second_stopper")
    cb_list = (stoppers + [ev, rec]) if c.get("stopper_first") else ([ev] + stoppers + [rec])
    if c.get("clear_at") is not None:
        cb_list = [LambdaCallback(on_epoch_start=lambda s_, e_: ev.clear_history() if e_ == c["clear_at"] else None)] + cb_list
        labels.append("history_cleared_inside_fit")
    if len(c["vals"]) <= 6 and int(abs(c["vals"][0]) * 1000) % 3 == 0:
        # re-entrant use: a further callback makes public library calls on the trained state (and trains another state) from inside the hooks
        from vf import gen as _gen
        cb_list = [_gen.busy_callback(hooks=("on_batch_end", "on_epoch_end", "on_epoch_start"))] + cb_list if len(c["vals"]) % 2 else cb_list + [_gen.busy_callback(hooks=("on_batch_end", "on_epoch_end"))]
        labels.append("busy_callback")
    if c.get("stopper_first"):
        labels.append("stopper_listed_before_evaluator")
    nt_any = False
    for ri, (E, stop_e) in enumerate(plan):
        del ends[:]
        state.stop_training = False
        if ri > 0 and c.get("clear_between"):
            ev.clear_history()
        before_last = es.last_epoch
        state.fit(data, epochs=E, pos_batch_size=2, lr=0.01, starting_epoch=c.get("se", 1), callbacks=cb_list)
        r = judge_round(c, ri, E, stop_e, ends, es, state, ev, before_last)
        nt_any = nt_any or r
        ab = c.get("_abort_info")
        if ri == 0 and ab is not None:
            del ends[:]
            state.stop_training = False
            moody_on.append(1)
            raised = False
            try:
                state.fit(data, epochs=ab["E_ab"], pos_batch_size=2, lr=0.01, starting_epoch=c.get("se", 1), callbacks=cb_list)
            except RuntimeError:
                raised = True
            finally:
                del moody_on[:]
            require(raised == (ab["stop_ab"] is None), "aborted-fit:" + ("stopped-without-rule" if not raised else "did-not-stop-when-rule-met"),
                    f"a fit() over epochs {c.get('se', 1)}..{ab['E_ab']} whose evaluation at epoch {ab['E_ab']} fails: " +
                    (f"training stopped at epoch {ends[-1] if ends else None} before reaching it although the rule is not met there" if not raised else f"the rule is met at epoch {ab['stop_ab']} but training went on to the failing evaluation"))
            if not raised:
                require(bool(ends) and ends[-1] == ab["stop_ab"], "aborted-fit:stop-epoch", f"stopped at {ends[-1] if ends else None}, rule met at {ab['stop_ab']}")
            labels.append("after_aborted_evaluation" if raised else "abort_preempted_by_stop")
    if len(plan) > 1:
        labels.append("two_rounds")
    return {"nontrivial": nt_any, "labels": labels + (["fires"] if any(se for _, se in plan) else ["never"])}


def judge_round(c, ri, E, stop_e, ends, es, state, ev, before_last):
    rtag = f" (fit round {ri + 1})" if ri else ""
    last = ends[-1] if ends else None
    if stop_e is None:
        require(last == E and es.last_epoch == before_last and state.stop_training is False, "stopped-without-rule",
                f"training stopped at epoch {last} (last_epoch={es.last_epoch}) although the convergence rule is never met in {E} epochs" + rtag,
                vals=c["vals"][:len(ev)], patience=c["patience"], tol=c["tol"])
    else:
        require(last is not None and last >= stop_e, "stopped-too-early" if (last or 0) < stop_e else "x",
                f"training stopped at epoch {last}, before the first epoch ({stop_e}) at which the rule is met "
                f"(patience {c['patience']}, {len(ev)} evaluations so far)" + rtag, vals=c["vals"][:len(ev) + 1], tol=c["tol"])
        require(last == stop_e and es.last_epoch == stop_e and state.stop_training is True, "did-not-stop-when-rule-met",
                f"rule met at epoch {stop_e} but training ran until {last} (last_epoch={es.last_epoch}, stop_training={state.stop_training})" + rtag)
    first_adm = None
    cnt = 0
    for e in range(c.get("se", 1), E + 1):
        cnt += e % c["pe"] == 0
        if e % c["ps"] == 0 and cnt >= c["patience"] + 1:
            first_adm = e
            break
    nt = (stop_e is None and first_adm is not None) or (stop_e is not None and first_adm is not None and stop_e > first_adm)
    return nt


def check_construction(c):
    from qucumber.callbacks import EarlyStopping, MetricEvaluator, ObservableEvaluator
    from qucumber.observables import SigmaZ
    me = MetricEvaluator(1, {"m": lambda s, **kw: 1.0})
    oe = ObservableEvaluator(1, [SigmaZ()], num_samples=2)
    if c["what"] == "variance+metric":
        expect_raises(TypeError, lambda: EarlyStopping(1, 0.1, c["p"], me, "m", criterion=c["spell"]), "construction:variance+metric-accepted", "variance criterion with a MetricEvaluator")
    elif c["what"] == "unknown":
        expect_raises(ValueError, lambda: EarlyStopping(1, 0.1, c["p"], oe if c["obs"] else me, "m", criterion=c["bad"]), "construction:unknown-criterion-accepted", f"criterion {c['bad']!r}")
    else:
        expect_raises(TypeError, lambda: EarlyStopping(1, 0.1, c["p"], object(), "m"), "construction:bad-evaluator-accepted", "evaluator_callback of a foreign type")
    return {}


construction = st.fixed_dictionaries({"what": st.sampled_from(["variance+metric", "unknown", "bad_evaluator"]), "p": st.integers(1, 5),
                                      "spell": st.sampled_from(["variance", "VARIANCE", " variance "]), "bad": st.sampled_from(["rel", "", "std", "variances"]),
                                      "obs": st.booleans()})

SUBCHECKS = [
    Sub("decision", check, strategy=lambda tier: scripts(tier), quick=800, thorough=15000),
    Sub("construction", check_construction, strategy=lambda tier: construction, quick=40, thorough=200),
]
