"""C17 - Periodic callbacks fire on schedule and their records match what happened."""
import csv
import os
import tempfile

import numpy as np
import torch
from hypothesis import strategies as st

from vf import gen, refmodel as R
from vf.common import Sub, require

PROPERTY = "C17"
RULE = ("Generated runs of fit(): tiny positive / complex / density model, starting_epoch 0..3, epochs 0..8, optional stop request at a "
        "drawn epoch, and a drawn set of periodic callbacks each with its own period 1..4: 1-2 MetricEvaluators (deterministic metrics "
        "of the current parameters, metric kwargs, CSV log), an ObservableEvaluator (deterministic test observable + built-ins, CSV "
        "log), a ModelSaver (save_initial on/off, metadata None / dict / callable, metadata_only on/off) and a Logger; optionally a "
        "second run of the same evaluators after clear_history. Oracle: an independent record made by a user callback placed first "
        "in the same run (epoch, metric values, System.statistics under a re-seeded RNG, parameter clones). Every accessor (len, "
        "epochs, names, per-name arrays by attribute and subscript, get_value for every valid index incl. negative, last, the "
        "ObservableStatistics accessors), the CSV contents, the logger messages, the set of files written and what each loads back "
        "to must agree with the record at exactly the epochs of the run that are multiples of the period. Non-trivial = two "
        "periodic callbacks with different periods, or a range not starting at a multiple of a period, or a run cut short.")
RULE_EXT = ('Extended as built: numpy integer indices, stop requested at an epoch end or inside a batch, a second run over the same / a fixed / the same range after clear_history, inspection after clear, up to 14 epochs, verbose evaluators, generator weighted toward several saves. Round 6: the last / past_values records a caller took from an evaluator survive clear_history() and a second run.')
RULE_EXT += ' Round 10 (after an exception / long time axis): an earlier run in which a metric raises during one evaluation (caught): records hold exactly the completed evaluations; histories of 70-300 evaluations with and without a log file.'
RULE_EXT += ' Round 11 (re-entrant use / feature interactions): a busy callback ahead of the recorder; a metric that inspects its own evaluator (number of records, last epoch and value) while it is being evaluated.'
RULE = RULE + " " + RULE_EXT
ASSUMPTIONS = ["observable statistics are compared with System.statistics evaluated by the recording callback under the same torch seed (their "
               "arithmetic is C13's business)", "files live in a per-case temporary directory"]


@st.composite
def runs(draw, tier):
    t = draw(st.sampled_from(["positive", "complex", "density"]))
    c = {"type": t, "se": draw(st.integers(0, 3)), "E": draw(st.integers(0, 8)) if draw(st.integers(0, 7)) else draw(st.integers(9, 14)), "seed": draw(st.integers(0, 2 ** 31 - 1)),
         "stop_at": draw(st.one_of(st.none(), st.integers(0, 8))),
         "metric_periods": draw(st.lists(st.integers(1, 4), min_size=0, max_size=2)),
         "obs_period": draw(st.one_of(st.none(), st.integers(1, 4))),
         "saver": draw(st.one_of(st.none(), st.fixed_dictionaries({"period": st.sampled_from([1, 1, 2, 3, 4]), "initial": st.sampled_from([True, True, False]),
                                                                  "metadata": st.sampled_from(["none", "dict", "dict", "callable"]), "only": st.sampled_from([False, False, True])}))),
         "logger": draw(st.one_of(st.none(), st.fixed_dictionaries({"period": st.integers(1, 4), "custom": st.booleans()}))),
         "second_run": draw(st.booleans()), "log": draw(st.booleans()), "stop_in_batch": draw(st.booleans()), "verbose": draw(st.booleans()),
         "inspect_after_clear": draw(st.booleans()), "third_run_no_clear": draw(st.booleans()), "decoy_shared_metrics": draw(st.booleans()),
         "third_from_last": draw(st.booleans()), "second_len": draw(st.sampled_from(["same", "fixed3", "same_range", "same_range"])),
         "aborted_first": draw(st.integers(0, 2)) == 0, "abort_at": draw(st.integers(0, 3)), "abort_skip": draw(st.integers(0, 1))}
    if draw(st.integers(0, 11)) == 0:
        # long time axis: histories of 70 to 300 evaluations (period 1 in half of these cases), with and without a log file
        c["E"] = c["se"] + draw(st.sampled_from([70, 262, 300]))
        c["stop_at"] = None
        if draw(st.booleans()):
            c["metric_periods"] = [1 for _ in c["metric_periods"]]
            c["obs_period"] = 1 if c["obs_period"] is not None else None
        if c["saver"] and draw(st.booleans()):
            c["saver"] = None
        if draw(st.integers(0, 3)) > 0:
            c["log"] = True                                   # long histories mostly with a log file
            if c["obs_period"] is None and draw(st.booleans()):
                c["obs_period"] = 1
    return c


class _Boom(RuntimeError):
    pass


BOOM = {"epoch": None, "cur": None, "seen": 0, "skip": 0}


def psum(s):
    return float(sum(p.data.sum() for net in s.networks for p in getattr(s, net).parameters()))


def pnorm(s, **kw):
    if BOOM["epoch"] is not None and BOOM["cur"] == BOOM["epoch"]:       # a metric that fails once, in one evaluation of one evaluator
        BOOM["seen"] += 1
        if BOOM["seen"] == BOOM["skip"] + 1:
            raise _Boom("metric failed")
    return pnorm_raw(s)


def pnorm_raw(s, **kw):
    return float(sum((p.data ** 2).sum() for net in s.networks for p in getattr(s, net).parameters())) ** 0.5


def scaled(s, scale=1.0, **kw):
    return scale * psum(s)


def plain_sum(s, **kw):
    return psum(s)


def params_of(state):
    return {net: {k: v.clone() for k, v in getattr(state, net).state_dict().items()} for net in state.networks}


def same_params(a, b):
    return a.keys() == b.keys() and all(all(torch.equal(a[n][k], b[n][k]) for k in a[n]) for n in a)


def md_fn(s, e):
    return {"epoch": e, "psum": psum(s)}


def check(c):
    import qucumber
    from qucumber.callbacks import CallbackBase, Logger, MetricEvaluator, ModelSaver, ObservableEvaluator
    from qucumber.nn_states import ComplexWaveFunction, DensityMatrix, PositiveWaveFunction
    from qucumber.observables import ObservableBase, SigmaZ, System
    cls = {"positive": PositiveWaveFunction, "complex": ComplexWaveFunction, "density": DensityMatrix}[c["type"]]
    n = 2
    qucumber.set_random_seed(c["seed"], cpu=True, gpu=False, quiet=True)
    state = cls(n, 3, gpu=False) if c["type"] != "density" else cls(n, 3, 1, gpu=False)   # nh, na != n
    data = torch.tensor([[0.0, 1.0], [0.0, 0.0], [1.0, 0.0]], dtype=torch.double)     # the rotated (XY) row uses outcome 00
    bases = np.array([["Z", "Z"], ["X", "Y"], ["Z", "Z"]])
    fitkw = {"input_bases": bases} if c["type"] != "positive" else {}

    class Det(ObservableBase):
        def __init__(self):
            self.name = "Det"
            self.symbol = "D"
        def apply(self, nn_state, samples):
            return (samples.double() @ torch.tensor([2.0, 1.0], dtype=torch.double)) * 0.5 - 0.25

    obs = [Det(), SigmaZ()]
    skw = dict(num_samples=6, num_chains=3, burn_in=1, steps=1)
    record = {"epochs": [], "started": [], "metrics": {}, "stats": {}, "params": {}, "initial": None}

    class Rec(CallbackBase):
        def on_train_start(self, s):
            record["initial"] = params_of(s)
        def on_epoch_start(self, s, e):
            record["started"].append(e)
        def on_epoch_end(self, s, e):
            record["epochs"].append(e)
            BOOM["cur"] = e
            record["metrics"][e] = {"sum": plain_sum(s), "norm": pnorm_raw(s), "scaled": scaled(s, scale=2.5), "seen": history_seen()}
            record["params"][e] = params_of(s)
            if c["obs_period"] is not None:
                torch.manual_seed(1000 + e)
                record["stats"][e] = System(*obs).statistics(s, **skw)
                torch.manual_seed(1000 + e)

    class StopAt(CallbackBase):
        def on_epoch_end(self, s, e):
            if c["stop_at"] is not None and e >= c["stop_at"] and not c.get("stop_in_batch"):
                s.stop_training = True
        def on_batch_end(self, s, e, b):
            if c["stop_at"] is not None and e >= c["stop_at"] and c.get("stop_in_batch"):
                s.stop_training = True

    labels = [f"type={c['type']}"]

    def history_seen():
        if not mes:
            return 0.0
        me_ = mes[0][3]
        n_ = len(me_)
        last_e = float(me_.epochs[-1]) if n_ else -1.0
        last_v = float(me_.get_value("sum")) if n_ else 0.0
        return float(n_) + 1e-3 * last_e + 1e-6 * last_v

    with tempfile.TemporaryDirectory(prefix="vf_c17_") as tmp:
        mes = []
        for i, p in enumerate(c["metric_periods"]):
            metrics = {"sum": plain_sum, "norm": pnorm, "scaled": scaled} if i == 0 else {"norm": pnorm, "sum": plain_sum}
            if i == 0 and c["seed"] % 3 == 0:
                # re-entrant use: a metric that inspects its own evaluator while it is being evaluated (how many evaluations are on record, the
                # last recorded epoch and value): it sees the completed evaluations only, exactly what the recorder ahead of it in the list sees
                metrics = dict(metrics, seen=lambda s_, **kw_: history_seen())
            log = os.path.join(tmp, f"metrics{i}.csv") if c["log"] else None
            mes.append((p, metrics, log, MetricEvaluator(p, metrics, verbose=bool(c.get("verbose")), log=log, scale=2.5)))
        if mes and c.get("decoy_shared_metrics"):
            # shared object: ANOTHER evaluator is built from the same metrics dict with other keyword arguments (it is never used); the dict
            # still holds the caller's functions and the first evaluator keeps calling them with ITS keyword arguments
            fns_before = dict(mes[0][1])
            MetricEvaluator(3, mes[0][1], scale=9.0)
            require(list(mes[0][1].items()) == list(fns_before.items()), "metrics-dict-altered", "constructing a MetricEvaluator changed the caller's metrics dict")
            labels.append("decoy_evaluator_on_shared_metrics_dict")
        oe = None
        if c["obs_period"] is not None:
            olog = os.path.join(tmp, "obs.csv") if c["log"] else None
            oe = ObservableEvaluator(c["obs_period"], obs, verbose=bool(c.get("verbose")), log=olog, **skw)
        saver = None
        if c["saver"]:
            sv = c["saver"]
            md = {"none": None, "dict": {"run": "r1", "lr": 0.1}, "callable": md_fn}[sv["metadata"]]
            saver = ModelSaver(sv["period"], os.path.join(tmp, "models"), "m{}.pt", save_initial=sv["initial"], metadata=md, metadata_only=sv["only"])
        msgs = []
        lg = None
        if c["logger"]:
            lg = Logger(c["logger"]["period"], logger_fn=msgs.append, msg_gen=(lambda s, e, **kw: f"E{e}|{kw['tag']}") if c["logger"]["custom"] else None, tag="T")
        busy_ = [gen.busy_callback(hooks=("on_batch_end", "on_epoch_end", "on_epoch_start"))] if (c["seed"] % 4 == 0 and c["E"] - c["se"] <= 6) else []      # re-entrant use (ahead of the recorder, which re-seeds for the evaluators)
        if busy_:
            labels.append("busy_callback")
        cbs = busy_ + [StopAt(), Rec()] + [m[3] for m in mes] + ([oe] if oe is not None else []) + ([saver] if saver else []) + ([lg] if lg else [])

        def one_run(se, E):
            record.update(epochs=[], started=[], metrics={}, stats={}, params={}, initial=None)
            state.stop_training = False
            state.fit(data, epochs=E, pos_batch_size=2, lr=0.1, starting_epoch=se, callbacks=cbs, **fitkw)
            require(record["started"] == record["epochs"], "epoch-without-end-event",
                    f"epochs {record['started']} were started but epoch-end (where periodic callbacks act) fired only for {record['epochs']}")
            return list(record["epochs"])

        def verify_metrics(ran, csv_rows_before, per=None):
            for p, metrics, log, me in mes:
                S = [e for e in ran if e % p == 0] if per is None else per[id(me)]
                require(len(me) == len(S), "metric:len", f"MetricEvaluator(period {p}) recorded {len(me)} evaluations over epochs {ran}, expected {len(S)} (at {S})")
                require(list(me.epochs) == S, "metric:epochs", f"MetricEvaluator.epochs {list(me.epochs)} != scheduled epochs {S}")
                require(me.names == list(metrics.keys()), "metric:names", f"names {me.names}")
                for name in metrics:
                    want = [record["metrics"][e][name] for e in S]
                    for acc, arr in (("attr", getattr(me, name)), ("item", me[name])):
                        require(isinstance(arr, np.ndarray) and list(arr) == want, f"metric:array:{acc}", f"MetricEvaluator.{name} = {list(arr)} != values at the scheduled epochs {want}")
                    for i in range(-len(S), len(S)):
                        require(me.get_value(name, i) == want[i], "metric:get_value", f"get_value({name!r}, {i}) = {me.get_value(name, i)} != {want[i]}")
                        require(me.get_value(name, np.int64(i)) == want[i] and me.get_value(name, index=i) == want[i], "metric:get_value-argform",
                                f"get_value({name!r}, index) depends on how the index is passed (numpy integer / keyword): index {i}")
                    if S:
                        require(me.get_value(name) == want[-1], "metric:get_value-default", "get_value without index is not the most recent value")
                require(me.last == ({k: record["metrics"][S[-1]][k] for k in metrics} if S else {}), "metric:last", f"last = {me.last}")
                if log:
                    rows = list(csv.reader(open(log)))
                    require(rows and rows[0] == ["epoch"] + list(metrics.keys()), "metric:csv-header", f"CSV header {rows[:1]}")
                    body = rows[1:][csv_rows_before.get(log, 0):]
                    want_rows = [[str(e)] + [str(record["metrics"][e][k]) for k in metrics] for e in S]
                    require(body == want_rows, "metric:csv-rows", f"CSV rows {body} != {want_rows}")
                    csv_rows_before[log] = csv_rows_before.get(log, 0) + len(S)

        def verify_obs(ran, csv_rows_before, per=None):
            if oe is None:
                return
            p = c["obs_period"]
            S = [e for e in ran if e % p == 0] if per is None else per[id(oe)]
            require(len(oe) == len(S) and list(oe.epochs) == S, "observable:schedule", f"ObservableEvaluator(period {p}) evaluated at {list(oe.epochs)}, expected {S}")
            require(oe.names == [o.name for o in obs], "observable:names", f"names {oe.names}")
            for o in obs:
                want = [record["stats"][e][o.name] for e in S]
                for acc, st_ in (("attr", getattr(oe, o.name)), ("item", oe[o.name])):
                    for stat, aliases in (("mean", ["mean", "means"]), ("variance", ["variance", "variances"]), ("std_error", ["std_error", "std_errors"]), ("num_samples", ["num_samples"])):
                        for al in aliases:
                            arr = getattr(st_, al) if acc == "attr" else st_[al]
                            require(isinstance(arr, np.ndarray) and list(arr) == [w[stat] for w in want], f"observable:stat:{al}",
                                    f"{o.name}.{al} = {list(arr)} != recorded {[w[stat] for w in want]}")
                for i in range(-len(S), len(S)):
                    require(oe.get_value(o.name, i) == want[i], "observable:get_value", f"get_value({o.name!r}, {i}) != record")
                    require(oe.get_value(o.name, np.int64(i)) == want[i], "observable:get_value-argform", f"get_value({o.name!r}, np.int64({i})) != record")
                if S:
                    require(oe.get_value(o.name) == want[-1], "observable:get_value-default", "get_value without index is not the most recent")
            require(oe.last == (record["stats"][S[-1]] if S else {}), "observable:last", f"last = {oe.last}")
            if oe.log:
                rows = list(csv.reader(open(oe.log)))
                hdr = ["epoch"] + [f"{o.name}_{s}" for o in obs for s in ("mean", "variance", "std_error")]
                require(rows and rows[0] == hdr, "observable:csv-header", f"CSV header {rows[:1]}")
                body = rows[1:][csv_rows_before.get(oe.log, 0):]
                want_rows = [[str(e)] + [str(record["stats"][e][o.name][s]) for o in obs for s in ("mean", "variance", "std_error")] for e in S]
                require(body == want_rows, "observable:csv-rows", f"CSV rows {body[:3]} != {want_rows[:3]}")
                csv_rows_before[oe.log] = csv_rows_before.get(oe.log, 0) + len(S)

        rows_before = {}
        BOOM.update(epoch=None, cur=None, seen=0)
        if c.get("aborted_first") and (mes or oe is not None):
            # after an exception: an earlier run in which a metric raises during one evaluation (the exception leaves fit() and is caught by the
            # caller).  The records hold exactly the evaluations that completed: evaluators ahead of the failing one in the callback list have
            # that epoch, the failing one and everything behind it have not
            e_star, E_ab = c["se"] + c["abort_at"], c["se"] + 3
            record.update(epochs=[], started=[], metrics={}, stats={}, params={}, initial=None)
            BOOM.update(epoch=e_star, cur=None, seen=0, skip=c["abort_skip"])
            raised = False
            try:
                state.fit(data, epochs=E_ab, pos_batch_size=2, lr=0.1, starting_epoch=c["se"], callbacks=[Rec()] + [m[3] for m in mes] + ([oe] if oe is not None else []), **fitkw)
            except _Boom:
                raised = True
            finally:
                BOOM.update(epoch=None, cur=None, seen=0)
            state.stop_training = False
            done = {id(m[3]): [] for m in mes}
            if oe is not None:
                done[id(oe)] = []
            stop_ = False
            for e_ in range(c["se"], E_ab + 1):
                seen_ = 0
                for p_, _, _, me_ in mes:
                    if e_ % p_ == 0:
                        if e_ == e_star:
                            seen_ += 1
                            if seen_ == c["abort_skip"] + 1:
                                stop_ = True
                                break
                        done[id(me_)].append(e_)
                if stop_:
                    break
                if oe is not None and e_ % c["obs_period"] == 0:
                    done[id(oe)].append(e_)
            require(raised == stop_, "metric-exception-swallowed", f"a metric raised at epoch {e_star}: fit() {'did not raise' if stop_ else 'raised although no metric failed'}")
            verify_metrics(None, rows_before, per=done)
            verify_obs(None, rows_before, per=done)
            for m in mes:
                m[3].clear_history()
            if oe is not None:
                oe.clear_history()
            labels.append("after_aborted_evaluation" if raised else "abort_not_triggered")
        ran = one_run(c["se"], c["E"])
        planned = list(range(c["se"], c["E"] + 1))
        if c["stop_at"] is not None:
            planned = [e for e in planned if e <= max(c["stop_at"], c["se"])][: None]
        require(ran == planned, "harness:epochs", f"run covered epochs {ran}, expected {planned}")   # C12's business; a sanity anchor here
        cut = len(ran) < len(range(c["se"], c["E"] + 1))

        verify_metrics(ran, rows_before)
        verify_obs(ran, rows_before)
        if saver:
            sv = c["saver"]
            S = [e for e in ran if e % sv["period"] == 0]
            want_files = sorted([f"m{e}.pt" for e in S] + (["minitial.pt"] if sv["initial"] else []))
            got_files = sorted(os.listdir(os.path.join(tmp, "models")))
            require(got_files == want_files, "saver:files", f"ModelSaver(period {sv['period']}) wrote {got_files}, expected {want_files} for epochs {ran}")
            for fn in want_files:
                e = 0 if fn == "minitial.pt" else int(fn[1:-3])
                want_p = record["initial"] if fn == "minitial.pt" else record["params"][e]
                fp = os.path.join(tmp, "models", fn)
                raw = torch.load(fp)
                if sv["metadata"] == "none":
                    want_md = {}
                elif sv["metadata"] == "dict":
                    want_md = {"run": "r1", "lr": 0.1}
                else:
                    want_md = {"epoch": e, "psum": float(sum(v.sum() for net in want_p.values() for v in net.values()))}
                if sv["only"]:
                    require(raw == want_md, "saver:metadata_only", f"{fn}: metadata_only file holds {raw}, expected exactly the metadata {want_md}")
                else:
                    for k, v in want_md.items():
                        require(k in raw and (raw[k] == v or (isinstance(v, float) and abs(raw[k] - v) <= 1e-12 * (1 + abs(v)))), "saver:metadata", f"{fn}: metadata {k!r} = {raw.get(k)} != {v}")
                    back = cls.autoload(fp, gpu=False)
                    require(same_params(params_of(back), want_p), "saver:parameters",
                            f"{fn} does not load back to the parameters the model had at " + ("train start" if fn == "minitial.pt" else f"the end of epoch {e}"))
        if lg:
            S = [e for e in ran if e % c["logger"]["period"] == 0]
            want = [f"E{e}|T" for e in S] if c["logger"]["custom"] else [f"Epoch {e}: " + str({"tag": "T"}) for e in S]
            require(msgs == want, "logger:messages", f"Logger(period {c['logger']['period']}) emitted {msgs}, expected {want}")
        if c["second_run"] and (mes or oe is not None):
            # what the caller took out of the evaluators after the first run (the public records themselves, not copies) stays what it was
            import copy as _copy
            kept = []
            for ev_ in [m[3] for m in mes] + ([oe] if oe is not None else []):
                for attr in ("last", "past_values"):
                    obj = getattr(ev_, attr, None)
                    if obj is not None:
                        kept.append((type(ev_).__name__ + "." + attr, obj, _copy.deepcopy(obj)))
            for m in mes:
                m[3].clear_history()
                if c.get("inspect_after_clear", True):      # looking at the empty evaluator is itself a step of the history: not always taken
                    require(len(m[3]) == 0 and m[3].last == {} and list(m[3].epochs) == [], "metric:clear_history", "clear_history left records behind")
            if oe is not None:
                oe.clear_history()
                if c.get("inspect_after_clear", True):
                    require(len(oe) == 0 and oe.last == {} and list(oe.epochs) == [], "observable:clear_history", "clear_history left records behind")
            if saver:
                cbs.remove(saver)
            c2 = c["stop_at"]
            c["stop_at"] = None
            try:
                # second run over a DIFFERENT epoch range; optionally of the same length as the first (same number of evaluations)
                L2 = max(1, len(ran)) if c.get("second_len") == "same" else 3
                base2 = c["E"] + 1 if c.get("second_len") != "same" or not ran else ran[-1] + 1 + (ran[0] % 2)
                if c.get("second_len") == "same_range" and ran:
                    base2, L2 = ran[0], len(ran)          # exactly the epochs of the first run again (other parameters by now, so other values)
                ran2 = one_run(base2, base2 + L2 - 1)
            finally:
                c["stop_at"] = c2
            verify_metrics(ran2, rows_before)
            verify_obs(ran2, rows_before)
            if c.get("third_run_no_clear") and ran2 and not saver:
                # a further run over the SAME epoch numbers without clear_history(): the history simply grows (epoch numbers then repeat)
                prev = {}
                for p_, metrics, log, me in mes:
                    prev[id(me)] = (list(me.epochs), {nm: list(me[nm]) for nm in metrics})
                prev_oe = (list(oe.epochs), {o.name: list(oe[o.name].mean) for o in obs}) if oe is not None else None
                ran3 = one_run(ran2[-1] if c.get("third_from_last") else ran2[0], ran2[-1] + (2 if c.get("third_from_last") else 0))     # the new run may start at the epoch number the last run ended with
                for p_, metrics, log, me in mes:
                    S3 = [e for e in ran3 if e % p_ == 0]
                    pe_, pv_ = prev[id(me)]
                    require(list(me.epochs) == pe_ + S3 and len(me) == len(pe_) + len(S3), "metric:history-not-appended",
                            f"a further run over epochs {ran3} without clear_history(): MetricEvaluator.epochs {list(me.epochs)} != earlier {pe_} + {S3}")
                    for nm in metrics:
                        require(list(me[nm]) == pv_[nm] + [record["metrics"][e][nm] for e in S3], "metric:history-not-appended",
                                f"a further run without clear_history(): values of {nm!r} are not the earlier history followed by this run's evaluations")
                if oe is not None:
                    S3 = [e for e in ran3 if e % c["obs_period"] == 0]
                    require(list(oe.epochs) == prev_oe[0] + S3, "observable:history-not-appended", f"a further run without clear_history(): ObservableEvaluator.epochs {list(oe.epochs)} != {prev_oe[0]} + {S3}")
                    for o in obs:
                        require(list(oe[o.name].mean) == prev_oe[1][o.name] + [record["stats"][e][o.name]["mean"] for e in S3], "observable:history-not-appended",
                                f"a further run without clear_history(): means of {o.name} are not the earlier history followed by this run's evaluations")
                labels.append("third_run_same_epochs_no_clear")
            for what_, obj, snap_ in kept:
                require(obj == snap_, "records-kept-by-caller-changed", f"the {what_} record the caller kept from the first run was altered by clear_history() / the second run")
            labels.append("second_run")
    periods = list(c["metric_periods"]) + ([c["obs_period"]] if c["obs_period"] else []) + ([c["saver"]["period"]] if c["saver"] else []) + ([c["logger"]["period"]] if c["logger"] else [])
    nt = bool(periods) and bool(ran) and (len(set(periods)) >= 2 or any(c["se"] % p for p in periods) or cut)
    return {"nontrivial": nt, "labels": labels + (["cut_short"] if cut else []) + (["empty_range"] if not ran else []) + [f"ncallbacks={len(periods)}"]}


SUBCHECKS = [Sub("schedule_and_records", check, strategy=lambda tier: runs(tier), quick=480, thorough=8000, per_shard=10)]
