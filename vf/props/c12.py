"""C12 - Training follows the documented event protocol and honours stop requests."""
import hashlib
import itertools

import numpy as np
import torch
from hypothesis import strategies as st

from vf import gen, refmodel as R
from vf.common import Sub, require, expect_raises

PROPERTY = "C12"
RULE = ("Runs of fit() with 1-3 recording callbacks (CallbackBase subclasses and LambdaCallbacks, drawn order), N 1..6, batch size "
        "1..4, starting_epoch 0..3, epochs 0..4 (empty ranges included), Timer on/off, three state types, and a stop request: none / "
        "set before fit / set inside callback invocation number j, j ranging over EVERY invocation of the unstopped run. 'box' "
        "enumerates the full product for a positive state with one callback (quick: reduced box; thorough: full box -> exhaustive). "
        "Oracle: a trace validator fed with the recorded (event, epoch, batch, callback id, parameter hash) sequence: grammar "
        "TS (ES (BS BE)* EE)* TE, consecutive epochs/batches, list-order dispatch, parameters constant outside a BS..BE window, the "
        "set of continuations the property allows after a stop, stop flag persistent; a pre-set stop gives an empty trace and "
        "unchanged parameters. Non-trivial = stop injected strictly inside the run with >= 2 batches per epoch (and >= 2 callbacks "
        "for the sampled runs).")
RULE_EXT = ('Extended as built: callbacks given as list / tuple / a CallbackList nested and shared between two fits, 1-3 consecutive fits, hooks that return values, N > 1024, up to 6 callbacks, up to 13 epochs; lambda_validation sub-check for LambdaCallback construction. Round 5: a learning-rate scheduler in the same run; the library MetricEvaluator + EarlyStopping(tolerance 0) at a drawn position in the callback list.')
RULE_EXT += ' Round 10 (after an exception / long time axis): a fit() aborted by an exception in any hook before the verified run; runs of 33-70 epochs with and without stop requests.'
RULE_EXT += ' Round 11 (re-entrant use / feature interactions): a busy callback first or last in the callback list in 1 sampled case of 5.'
RULE = RULE + " " + RULE_EXT
ASSUMPTIONS = ["a stop requested at train start or epoch start may be followed by at most one batch (both continuations accepted, as the property allows)",
               "callbacks themselves never touch parameters"]

EV = ["TS", "TE", "ES", "EE", "BS", "BE"]


def phash(state):
    h = hashlib.sha1()
    for net in state.networks:
        for p in getattr(state, net).parameters():
            h.update(p.data.numpy().tobytes())
    return h.hexdigest()[:12]


def unstopped(se, E, nb):
    tr = [("TS", None, None)]
    for e in range(se, E + 1):
        tr.append(("ES", e, None))
        for b in range(nb):
            tr += [("BS", e, b), ("BE", e, b)]
        tr.append(("EE", e, None))
    tr.append(("TE", None, None))
    return tr


def allowed_after_stop(full, pos, nb):
    """event-level continuations the property allows when the stop is requested during event full[pos]."""
    ev, e, b = full[pos]
    pre = full[:pos + 1]
    TE = ("TE", None, None)
    if ev == "TE":
        return [pre]
    if ev == "EE":
        return [pre + [TE]]
    if ev == "BE":
        return [pre + [("EE", e, None), TE]]
    if ev == "BS":
        return [pre + [("BE", e, b), ("EE", e, None), TE]]
    if ev == "ES":
        out = [pre + [("EE", e, None), TE]]
        if nb > 0:
            out.append(pre + [("BS", e, 0), ("BE", e, 0), ("EE", e, None), TE])
        return out
    if ev == "TS":
        out = [pre + [TE]]
        if len(full) > 2:
            e0 = full[1][1]
            out.append(pre + [("ES", e0, None), ("EE", e0, None), TE])
            if nb > 0:
                out.append(pre + [("ES", e0, None), ("BS", e0, 0), ("BE", e0, 0), ("EE", e0, None), TE])
        return out
    raise AssertionError(ev)


def make_state(t, n, seed):
    import qucumber
    from qucumber.nn_states import ComplexWaveFunction, DensityMatrix, PositiveWaveFunction
    qucumber.set_random_seed(seed, cpu=True, gpu=False, quiet=True)
    return {"positive": lambda: PositiveWaveFunction(n, 2, gpu=False), "complex": lambda: ComplexWaveFunction(n, 2, gpu=False),
            "density": lambda: DensityMatrix(n, 1, 1, gpu=False)}[t]()


def run_case(c):
    from qucumber.callbacks import CallbackBase, LambdaCallback
    t, N, B, se, E = c["type"], c["N"], c["B"], c["se"], c["E"]
    n = 2
    state = make_state(t, n, c.get("seed", 0))
    for _ in range(c.get("_rep", 0)):
        # earlier fit() calls on the same state object (history): unstopped one-epoch runs without callbacks
        kw0 = {"input_bases": np.array([["Z", "Z"] if k % 2 == 0 else ["X", "Y"] for k in range(N)]).reshape(N, n)} if t != "positive" else {}
        state.fit(torch.tensor([R.index_to_row(k % 4, n) if k % 2 == 0 else [0, 0] for k in range(N)], dtype=torch.double), epochs=1, pos_batch_size=B, lr=0.1, **kw0)
    data = torch.tensor([R.index_to_row(k % 4, n) if k % 2 == 0 else [0, 0] for k in range(N)], dtype=torch.double)   # rotated rows: outcome 00
    bases = np.array([["Z", "Z"] if (k % 2 == 0 or c.get("all_z")) else ["X", "Y"] for k in range(N)]).reshape(N, n)    # all_z: every row measured in the reference basis
    if c.get("aborted_first"):
        # an earlier run on the same state was aborted by an exception raised in a user callback (caught by the caller)
        gen.abort_a_fit(state, data, bases if t != "positive" else None, hook=c["aborted_first"], pos_batch_size=B)
    trace = []
    counter = [0]
    inject = c.get("inject")

    order = []        # who was reached at each epoch end, library callbacks included (the evaluator's metric function reports itself as "M")

    def rec(cb_id, ev, s, e=None, b=None):
        trace.append((ev, e, b, cb_id, phash(s), s.stop_training))
        if ev == "EE":
            order.append(cb_id)
        if inject is not None and counter[0] == inject:
            s.stop_training = True
        counter[0] += 1
        # hooks may return anything (a running count, a metric value): a return value is not a stop request
        return counter[0] if c.get("hooks_return") else None

    def mk(cb_id, kind):
        if kind == "class":
            class Rec(CallbackBase):
                def on_train_start(self, s): return rec(cb_id, "TS", s)
                def on_train_end(self, s): return rec(cb_id, "TE", s)
                def on_epoch_start(self, s, e): return rec(cb_id, "ES", s, e)
                def on_epoch_end(self, s, e): return rec(cb_id, "EE", s, e)
                def on_batch_start(self, s, e, b): return rec(cb_id, "BS", s, e, b)
                def on_batch_end(self, s, e, b): return rec(cb_id, "BE", s, e, b)
            return Rec()
        return LambdaCallback(on_train_start=lambda s: rec(cb_id, "TS", s), on_train_end=lambda s: rec(cb_id, "TE", s),
                              on_epoch_start=lambda s, e: rec(cb_id, "ES", s, e), on_epoch_end=lambda s, e: rec(cb_id, "EE", s, e),
                              on_batch_start=lambda s, e, b: rec(cb_id, "BS", s, e, b), on_batch_end=lambda s, e, b: rec(cb_id, "BE", s, e, b))

    cbs = [mk(i, k) for i, k in enumerate(c["cbs"])]
    if c.get("preset"):
        state.stop_training = True
    h0 = phash(state)
    form = c.get("cb_form", "list")
    cbs_arg = tuple(cbs) if form == "tuple" else cbs
    if form == "sequence_api":
        # the callback container is a mutable sequence: it is assembled with +, item assignment, insert and del; what counts is its final order
        from qucumber.callbacks import CallbackList
        placeholder, extra = mk(98, "class"), mk(97, "lambda")
        cl = CallbackList([placeholder]) + CallbackList(cbs[1:])
        cl[0] = cbs[0]
        cl.insert(1, extra)
        del cl[1]
        require(list(iter(cl)) == cbs and len(cl) == len(cbs) and cl[0] is cbs[0] and cl[-1] is cbs[-1], "callback-list:sequence-api",
                "a CallbackList assembled with +, item assignment, insert and del does not hold the expected callbacks in order")
        expect_raises(TypeError, lambda: cl.insert(0, object()), "callback-list:accepts-non-callback", "CallbackList.insert of an object that is not a callback")
        expect_raises(TypeError, lambda: cl.__setitem__(0, "x"), "callback-list:accepts-non-callback", "CallbackList item assignment of an object that is not a callback")
        cbs_arg = cl if c.get("seed", 0) % 2 else [cl]
    if form == "nested_shared":
        # CallbackList is itself a callback and a mutable sequence: one shared list object is used for a first fit(), a member is
        # removed, and the same object is used again - the removed callback must not see any event of the second run
        from qucumber.callbacks import CallbackList
        shared = CallbackList(cbs + [mk(99, "class")])
        keep_inject, inject = inject, None
        kw0 = dict(epochs=max(se, 1), starting_epoch=max(se, 1), pos_batch_size=B, lr=0.1, k=1, callbacks=[shared])
        if t != "positive":
            kw0["input_bases"] = bases
        state.fit(data, **kw0)
        del shared[len(shared) - 1]
        del trace[:]
        counter[0] = 0
        inject = keep_inject
        state.stop_training = bool(c.get("preset"))
        cbs_arg = [shared]
        h0 = phash(state)
    if c.get("lib_cbs") and form not in ("nested_shared", "sequence_api"):
        from qucumber.callbacks import EarlyStopping, MetricEvaluator
        ev_ = MetricEvaluator(1, {"m": lambda s_, **kw_: (order.append("M"), 1.0)[1]})
        lib = [ev_, EarlyStopping(1, 0.0, 1, ev_, "m")]
        pos = {"first": 0, "last": len(cbs), "middle": len(cbs) // 2}[c["lib_cbs"]]
        mixed = list(cbs[:pos]) + lib + list(cbs[pos:])
        cbs_arg = tuple(mixed) if form == "tuple" else mixed
    if c.get("busy") and isinstance(cbs_arg, (list, tuple)) and form in ("list", "tuple"):
        busy_ = gen.busy_callback()
        cbs_arg = type(cbs_arg)(([busy_] if c["busy"] == "first" else []) + list(cbs_arg) + ([busy_] if c["busy"] == "last" else []))
    if c.get("nested_same") and isinstance(cbs_arg, (list, tuple)) and form in ("list", "tuple"):
        # re-entrant use: a user callback (LAST in the list) that, at the first epoch start, runs a complete one-epoch fit() of the SAME state
        # (no callbacks); the outer run then goes on: its remaining events carry their own epoch and batch numbers
        fired = []

        def nest(s_, e_):
            if not fired:
                fired.append(e_)
                s_.fit(data, epochs=1, pos_batch_size=B, lr=0.1, **({"input_bases": bases} if t != "positive" else {}))
        cbs_arg = type(cbs_arg)(list(cbs_arg) + [LambdaCallback(on_epoch_start=nest)])
    kw = dict(epochs=E, pos_batch_size=B, starting_epoch=se, lr=0.1, k=1, callbacks=cbs_arg, time=c.get("time", False))
    if c.get("sched"):
        kw.update(scheduler=torch.optim.lr_scheduler.StepLR, scheduler_args={"step_size": 1, "gamma": 0.5})
    if c.get("nbs") is not None:
        kw["neg_batch_size"] = c["nbs"]
    if t != "positive":
        kw["input_bases"] = bases
    state.fit(data, **kw)
    if c.get("lib_cbs") and form not in ("nested_shared", "sequence_api"):
        # callbacks are reached in the order of the caller's list, whatever their kind: the library's evaluator sits where it was listed
        pattern = list(range(pos)) + ["M"] + list(range(pos, len(cbs)))
        nfull = len(order) // len(pattern)
        require(order == pattern * nfull, "dispatch:library-callback-order",
                f"at an epoch end the callbacks were not reached in list order (evaluator listed at position {pos} of {len(cbs) + 2}): {order[:2 * len(pattern)]} instead of repetitions of {pattern}")
    return state, trace, h0


def check(c):
    r = None
    for rep in range(c.get("fits", 1)):
        r = check_one(dict(c, _rep=rep))
    return r


def check_one(c):
    N, B, se, E = c["N"], c["B"], c["se"], c["E"]
    ncb = len(c["cbs"])
    nb = -(-N // B)
    full = unstopped(se, E, nb)
    c = dict(c)
    if c.get("stop_at") is not None and not c.get("preset"):
        c["inject"] = c["stop_at"] % (len(full) * ncb)
    state, trace, h0 = run_case(c)
    if c.get("preset"):
        require(trace == [], "preset-stop:events", f"a run started with a stop already requested emitted {len(trace)} events")
        require(phash(state) == h0, "preset-stop:params", "a run started with a stop already requested changed parameters")
        require(state.stop_training is True, "stop-flag", "the stop request did not persist")
        # lifecycle: the request is withdrawn and the same state trained again: an ordinary complete run
        state.stop_training = False
        seen = []
        from qucumber.callbacks import LambdaCallback
        kw2 = dict(epochs=max(se, 1) + 1, starting_epoch=max(se, 1), pos_batch_size=B, lr=0.1, k=1,
                   callbacks=[LambdaCallback(on_epoch_end=lambda s_, e_: seen.append(("EE", e_)), on_batch_end=lambda s_, e_, b_: seen.append(("BE", e_, b_)),
                                             on_train_end=lambda s_: seen.append(("TE",)))])
        if c["type"] != "positive":
            kw2["input_bases"] = np.array([["Z", "Z"] if (k % 2 == 0 or c.get("all_z")) else ["X", "Y"] for k in range(N)]).reshape(N, 2)
        data2 = torch.tensor([R.index_to_row(k % 4, 2) if k % 2 == 0 else [0, 0] for k in range(N)], dtype=torch.double)
        state.fit(data2, **kw2)
        want2 = []
        for e_ in (max(se, 1), max(se, 1) + 1):
            want2 += [("BE", e_, b_) for b_ in range(nb)] + [("EE", e_)]
        want2.append(("TE",))
        require(seen == want2, "after-withdrawn-stop:protocol", f"a run started after the pending stop request was withdrawn is not a complete run: {seen[:8]} ...")
        return {"nontrivial": True, "labels": ["preset"]}
    # list-order dispatch: every event reaches callbacks 0..ncb-1 consecutively
    require(len(trace) % ncb == 0, "dispatch", f"{len(trace)} callback invocations for {ncb} callbacks: some callback missed an event",
            trace=[x[:4] for x in trace][-12:])
    evs = []
    for i in range(0, len(trace), ncb):
        grp = trace[i:i + ncb]
        require([g[3] for g in grp] == list(range(ncb)) and len({g[:3] for g in grp}) == 1, "dispatch",
                "an event did not reach every callback, in list order", group=[g[:4] for g in grp])
        evs.append(grp[0][:3])
    inject = c.get("inject")
    if inject is None:
        allowed = [full]
    else:
        allowed = allowed_after_stop(full, inject // ncb, nb)
    require(evs in allowed, "protocol" + ("" if inject is None else ":after-stop@" + full[inject // ncb][0]),
            ("unstopped run does not follow TS (ES (BS BE)* EE)* TE over every epoch and batch" if inject is None else
             f"after a stop requested during {full[inject // ncb]} the remaining events are not what the protocol allows"),
            got=evs[-8:], allowed=[a[-8:] for a in allowed])
    # parameters change only between a batch-start and its batch-end
    full_first_epoch = next((ev_[1] for ev_ in full if ev_[0] == "ES"), None)
    for i in range(len(trace) - 1):
        a, b_ = trace[i], trace[i + 1]
        in_batch = a[0] == "BS" and b_[0] == "BE"
        if c.get("nested_same") and a[0] == "ES" and a[3] == ncb - 1 and a[1] == full_first_epoch:
            continue        # the nested training run of the user's own callback happens here
        if not in_batch:
            require(a[4] == b_[4], "params-outside-batch", f"parameters changed between {a[:4]} and {b_[:4]} (outside a batch-start/batch-end window)")
    if trace:
        require(trace[0][4] == h0 and trace[-1][4] == phash(state), "params-outside-run", "parameters changed before train-start or after train-end")
    else:
        require(False, "protocol", "no event at all was emitted")
    if inject is not None:
        require(state.stop_training is True, "stop-flag", "the stop request did not persist after training")
        seen = False
        for x in trace[inject + 1:]:
            require(x[5] is True, "stop-flag", "stop_training was reset during the run")
    else:
        require(state.stop_training is False, "stop-flag", "stop_training set although nobody requested a stop")
    inner = inject is not None and 0 < inject // ncb < len(full) - 1
    return {"nontrivial": inner and nb >= 2 and (ncb >= 2 or c.get("box")),
            "labels": [f"type={c['type']}", f"ncb={ncb}"] + (["stop@" + full[inject // ncb][0]] if inject is not None else ["unstopped"]) +
                      (["empty_range"] if se > E else []) + (["timer"] if c.get("time") else []) + (["scheduler"] if c.get("sched") else []) +
                      (["library_callbacks_in_list"] if c.get("lib_cbs") else []) + (["busy_callback"] if c.get("busy") else []) + (["nested_fit_of_same_state"] if c.get("nested_same") else []) +
                      (["after_aborted_fit"] if c.get("aborted_first") else []) + (["more_than_32_epochs"] if E - se >= 32 else [])}


@st.composite
def sampled(draw, tier):
    ncb = draw(st.integers(1, 3)) if draw(st.integers(0, 9)) else draw(st.integers(4, 6))
    c = {"type": draw(st.sampled_from(gen.TYPES)), "N": draw(st.integers(1, 6)), "B": draw(st.integers(1, 4)), "se": draw(st.integers(0, 3)),
         "E": draw(st.integers(0, 4)) if draw(st.integers(0, 9)) else draw(st.integers(9, 13)), "cbs": [draw(st.sampled_from(["class", "lambda"])) for _ in range(ncb)], "time": draw(st.booleans()),
         "seed": draw(st.integers(0, 2 ** 31 - 1)), "hooks_return": draw(st.booleans()), "nbs": draw(st.one_of(st.none(), st.integers(1, 6))),
         "cb_form": draw(st.sampled_from(["list", "list", "tuple", "nested_shared", "sequence_api"])), "fits": draw(st.sampled_from([1, 1, 1, 2, 3])),
         # other features used in the same run: a learning-rate scheduler; the library's own evaluator + convergence monitor (tolerance 0:
         # never converges, never requests a stop) somewhere in the callback list
         "sched": draw(st.booleans()), "lib_cbs": draw(st.sampled_from([None, None, "first", "last", "middle"])), "all_z": draw(st.integers(0, 3)) == 0,
         "aborted_first": draw(st.sampled_from([None, None, None, "on_train_start", "on_epoch_start", "on_batch_end", "on_epoch_end"]))}
    if draw(st.integers(0, 19)) == 0:
        c.update(N=draw(st.integers(1, 3)), E=c["se"] + draw(st.integers(33, 70)), fits=1)      # a long run (time axis: more than 32 / 64 epochs)
    if draw(st.integers(0, 29)) == 0:
        c.update(N=draw(st.integers(1025, 1300)), B=draw(st.sampled_from([400, 500, 1000])), E=c["se"] + draw(st.integers(1, 2)))     # a large data set
    if c["N"] <= 6 and c["E"] - c["se"] <= 6 and draw(st.integers(0, 4)) == 0:
        # re-entrant use: one more callback that makes public library calls on the trained state (and trains another state) from inside every hook
        c["busy"] = draw(st.sampled_from(["first", "last"]))
    if not c.get("busy") and c["N"] <= 6 and draw(st.integers(0, 5)) == 0:
        c["nested_same"] = True
    mode = draw(st.sampled_from(["none", "preset", "inject", "inject", "inject"]))
    if mode == "preset":
        c["preset"] = True
    elif mode == "inject":
        c["stop_at"] = draw(st.integers(0, 10 ** 6))
    return c


def box(tier):
    out = []
    if tier == "quick":
        Ns, Bs, ses, Es = [1, 3, 4], [1, 2, 3], [0, 1, 2], [0, 1, 2, 3]
    else:
        Ns, Bs, ses, Es = range(1, 7), range(1, 5), range(0, 4), range(0, 5)
    for N, B, se, E in itertools.product(Ns, Bs, ses, Es):
        nb = -(-N // B)
        nev = len(unstopped(se, E, nb))
        base = {"type": "positive", "N": N, "B": B, "se": se, "E": E, "cbs": ["class"], "box": True, "seed": 7}
        out.append(dict(base))
        out.append(dict(base, hooks_return=True, nbs=B + 2))
        out.append(dict(base, nbs=max(1, B - 1)))
        out.append(dict(base, sched=True))
        out.append(dict(base, aborted_first=["on_train_start", "on_epoch_start", "on_batch_end", "on_epoch_end"][(N + B + se + E) % 4]))
        out.append(dict(base, preset=True))
        for j in range(nev):
            out.append(dict(base, stop_at=j, sched=bool(j % 2), lib_cbs=[None, "first", "last"][j % 3]))
    return out


def check_lambda(c):
    from qucumber.callbacks import LambdaCallback
    names = {"on_train_start": 1, "on_train_end": 1, "on_epoch_start": 2, "on_epoch_end": 2, "on_batch_start": 3, "on_batch_end": 3}
    name = c["name"]
    ar = names[name]
    fns = {0: lambda: None, 1: lambda a: None, 2: lambda a, b: None, 3: lambda a, b, c_: None, 4: lambda a, b, c_, d: None}
    if c["arity"] == "noncallable":
        expect_raises(TypeError, lambda: LambdaCallback(**{name: c["value"]}), "lambda:noncallable-accepted", f"LambdaCallback({name}=<non-callable>)")
    elif c["arity"] != ar:
        expect_raises(ValueError, lambda: LambdaCallback(**{name: fns[c["arity"]]}), "lambda:wrong-arity-accepted", f"LambdaCallback({name}=<function of {c['arity']} args>)")
    else:
        cb = LambdaCallback(**{name: fns[ar]})
        getattr(cb, name)(*range(ar))
        for other, oar in names.items():
            if other != name:
                require(getattr(cb, other)(*range(oar)) is None, "lambda:default", "unset LambdaCallback hooks must be no-ops")
    return {}


lambda_cases = st.fixed_dictionaries({"name": st.sampled_from(["on_train_start", "on_train_end", "on_epoch_start", "on_epoch_end", "on_batch_start", "on_batch_end"]),
                                      "arity": st.sampled_from([0, 1, 2, 3, 4, "noncallable"]), "value": st.sampled_from([1, "x", 2.5])})

SUBCHECKS = [
    Sub("sampled", check, strategy=lambda tier: sampled(tier), quick=1200, thorough=12000),
    Sub("box", check, enumerate=box),
    Sub("lambda_validation", check_lambda, strategy=lambda tier: lambda_cases, quick=60, thorough=300),
]
