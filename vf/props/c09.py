"""C09 - The swap estimator measures the purity of the reduced state."""
import itertools

import numpy as np
import torch
from hypothesis import strategies as st

from vf import gen, refmodel as R
from vf.common import Sub, require

PROPERTY = "C09"
RULE = ("Generated: three state types, n 1..3 (thorough: ..4), nh 1..3, na 1..3, parameters with scales up to 8; per case EVERY "
        "subset A of the sites is enumerated (passed as list / numpy int array / LongTensor, and additionally as int for "
        "singletons) and EVERY ordered pair (s1,s2) of basis states is evaluated through a two-row batch. Oracle: "
        "sum p(s1)p(s2) SWAP_A(s1,s2) == tr(rho_A^2) with rho_A the partial trace (einsum) of the normalised reference state; "
        "S2 >= 0; pure states: purity(A) == purity(complement), == 1 for empty/full A; on a generated longer batch there is a "
        "cyclic shift d in {+1,-1} with out[b] = f(s_b, s_{b+d}); batch unchanged. Non-trivial = a proper non-empty region "
        "exists (n >= 2), all biases non-zero, and (density) purity of the full state < 1 - 1e-6.")
RULE_EXT = ('Extended as built: held outputs re-verified after later calls, int64 / float32 sample batches, batches of several hundred rows, parameter scale 30 (bound 80), per-pair reference values rather than only the sum. Rounds 5-6: the documented helper swap(s1, s2, A) called directly for every region form; a bare site index given to the constructor and assigned to the public attribute A.')
RULE_EXT += ' Round 10 (after an exception / long time axis): refused applications (1-D configuration, wrong width, rank 3; caught) of an observable whose region is all sites before each re-assignment of its region.'
RULE = RULE + " " + RULE_EXT
ASSUMPTIONS = ["tolerance 1e-7 absolute on purities (all in [0,1])", "4^n two-row evaluations per region: n=4 only in the thorough tier"]


@st.composite
def cases(draw, tier):
    t = draw(st.sampled_from(gen.TYPES))
    nmax = 3 if tier == "quick" else 4
    sc = draw(gen.state_case(types=[t], n=(1, nmax), nh=(1, 3), na=(1, 3), scales=[0.05, 0.5, 2.0, 2.0, 8.0, 30.0], bound=80.0))
    if draw(st.integers(0, 4)) == 0:
        # value regime: strongly polarised amplitude network (visible biases of magnitude 12-25, either sign): importance-sampling ratios of
        # single pairs span many orders of magnitude (1e6 and far beyond) while the exact averages stay in [0, 1]
        sc["am"]["b"] = [draw(st.sampled_from([-1.0, 1.0])) * draw(st.floats(12.0, 25.0, allow_nan=False, width=64)) for _ in range(sc["n"])]
        sc["polarised"] = True
    if sc["n"] >= 2 and draw(st.integers(0, 5)) == 0:
        # value regime: a strongly CORRELATED amplitude network (one hidden unit that switches on only when every site is 1, balanced by the
        # visible biases): |00..0> and |11..1> dominate, so single-pair importance ratios reach e^(w/2) >= 1e6 while the averages stay in [0, 1]
        w = draw(st.floats(28.0, 36.0, allow_nan=False, width=64))
        n_ = sc["n"]
        sc["am"]["W"][0] = [w] * n_
        sc["am"]["c"][0] = -w * (n_ - 1)
        sc["am"]["b"] = [-w / n_] * n_
        for r_ in range(1, len(sc["am"]["W"])):
            sc["am"]["W"][r_] = [x / (1.0 + abs(x)) for x in sc["am"]["W"][r_]]
            sc["am"]["c"][r_] = sc["am"]["c"][r_] / (1.0 + abs(sc["am"]["c"][r_]))
        sc["correlated"] = True
    c = {"state": sc, "batch": draw(gen.index_list(sc["n"], 3, 7)) if draw(st.integers(0, 5)) else draw(gen.index_list(sc["n"], 60, 90)), "fmt": draw(st.integers(0, 2))}
    if draw(st.booleans()):
        # second parameter set written in place into the same object after the first evaluations (same batches evaluated again)
        alt = draw(gen.state_case(types=[t], n=(sc["n"], sc["n"]), nh=(sc["nh"], sc["nh"]), na=(sc.get("na", 1), sc.get("na", 1)), scales=[0.5, 2.0], bound=80.0))
        c["alt"] = {"am": alt["am"], "ph": alt.get("ph")}
    return c


def fmt_region(A, how):
    if how == 0:
        return list(A)
    if how == 1:
        return np.array(A, dtype=int)
    return torch.tensor(A, dtype=torch.long)


def check(case):
    from qucumber.observables import SWAP
    sc = case["state"]
    n = sc["n"]
    D = 2 ** n
    state = gen.build_state(sc)
    am, ph = gen.ref_nets(sc)
    V = R.bits(n)
    space = state.generate_hilbert_space()
    p = (state.probability(space) / state.normalization(space)).double()
    if sc["type"] == "density":
        rho = R.rho_ref(am, ph, V)
    else:
        psi = R.psi_ref(am, ph, V)
        rho = psi[:, None] * psi.conj()[None, :]
    rho = rho / rho.diagonal().real.sum()
    pur_full = float(torch.trace(rho @ rho).real)
    regions = [list(A) for r in range(n + 1) for A in itertools.combinations(range(n), r)]
    # unnormalised reference state for the per-pair values
    ref_state = R.rho_ref(am, ph, V) if sc["type"] == "density" else R.psi_ref(am, ph, V)

    def swapped(i, j, A):
        bi, bj = R.index_to_row(i, n), R.index_to_row(j, n)
        for a in A:
            bi[a], bj[a] = bj[a], bi[a]
        return R.row_to_index(bi), R.row_to_index(bj)

    with R.library_precision():          # precision tier (see c01.py): product-form reference, agreement to ~1e-13
        ref_state_prec = R.rho_ref(am, ph, V) if sc["type"] == "density" else R.psi_ref(am, ph, V)
        # the documented importance weight of a mixed state divides by probability(sigma), which sums the auxiliary units in product form too
        den_prec = torch.exp(R.log_prob_visible(am, V)) if sc["type"] == "density" else None

    prec_pair = 1e-10 + (1e-13 / max(gen.min_aux_factor(sc), 1e-12) if sc["type"] == "density" else 0.0)      # see c02.py

    def pair_ref(i, j, A, ref_state=ref_state):
        """SWAP_A value of the ordered pair (i, j): Re[w(i'|i) w(j'|j)] with the library's documented importance weights"""
        ip, jp = swapped(i, j, A)
        if sc["type"] == "density":
            w = (ref_state[ip, i] / ref_state[i, i]) * (ref_state[jp, j] / ref_state[j, j])
        else:
            w = (ref_state[ip] / ref_state[i]) * (ref_state[jp] / ref_state[j])
        return float(w.real)
    purity = {}
    batch = V[case["batch"]].clone()
    for ai, A in enumerate(regions):
        forms = [fmt_region(A, (ai + case["fmt"]) % 3)]
        if len(A) >= 2:
            # a region is a SET of sites: the order in which the caller lists them (descending, rotated) is immaterial
            forms.append(fmt_region(list(reversed(A)), (ai + case["fmt"] + 1) % 3))
            if len(A) >= 3:
                forms.append(fmt_region(A[1:] + A[:1], (ai + case["fmt"] + 2) % 3))
        if len(A) == 1:
            forms.append(int(A[0]))          # a bare site index given to the constructor
            forms.append(int(A[0]))          # ... and assigned to the public attribute afterwards (handled below: the LAST form)
        F = None
        for fi, form in enumerate(forms):
            # the documented helper swap(s1, s2, A) itself: region A of the two replicas is exchanged, everything else kept
            from qucumber.observables.entanglement import swap as swap_helper
            b1, b2 = batch.clone(), torch.roll(batch, 1, 0).clone()
            r1, r2 = swap_helper(b1.clone(), b2.clone(), form)
            e1, e2 = b1.clone(), b2.clone()
            for a in A:
                e1[:, a], e2[:, a] = b2[:, a], b1[:, a]
            require(torch.equal(r1, e1) and torch.equal(r2, e2), "swap-helper", f"swap(s1, s2, A) with A={form!r} did not exchange exactly region A between the two replicas")
            obs = SWAP(form)
            if len(A) == 1 and fi == len(forms) - 1:
                obs = SWAP(list(range(n)))
                obs.A = form                    # the region is a plain public attribute
            held = []
            Fm = torch.zeros(D, D, dtype=torch.double)
            done = torch.zeros(D, D, dtype=torch.bool)
            for i in range(D):
                for j in range(D):
                    if fi >= 1 and len(A) >= 2 and (i + 2 * j + ai + fi) % 3:
                        continue              # the re-ordered forms of a region are evaluated on a third of the pairs
                    done[i, j] = True
                    two = torch.stack([V[i], V[j]])
                    keep = two.clone()
                    out = obs.apply(state, two)
                    require(torch.equal(two, keep), "mutated", "SWAP.apply modified the batch")
                    require(isinstance(out, torch.Tensor) and tuple(out.shape) == (2,) and out.dtype.is_floating_point, "shape", f"SWAP.apply on a 2-row batch returned shape {tuple(out.shape)}")
                    Fm[i, j] = float(out[0])
                    pr = pair_ref(i, j, A)
                    require(abs(Fm[i, j] - pr) <= 1e-6 * abs(pr) + 1e-9, "pair-value",
                            f"SWAP value of the pair ({i},{j}) for A={A} is {Fm[i, j]}, the product of the two importance weights is {pr}")
                    ip_, jp_ = swapped(i, j, A)
                    if sc["type"] == "density":
                        wp = (ref_state_prec[ip_, i] / den_prec[i]) * (ref_state_prec[jp_, j] / den_prec[j])
                    else:
                        wp = (ref_state_prec[ip_] / ref_state_prec[i]) * (ref_state_prec[jp_] / ref_state_prec[j])
                    wmag, prp = float(wp.abs()), float(wp.real)
                    require(abs(Fm[i, j] - prp) <= prec_pair * wmag + 1e-300, "precision:pair-value",
                            f"SWAP value of the pair ({i},{j}) for A={A} is not accurate to double precision: {Fm[i, j]!r} vs {prp!r}")
                    held.append((out, out.detach().clone()))
                    if len(held) > 4:
                        o_old, o_val = held.pop(0)
                        require(torch.equal(o_old, o_val), "earlier-result-changed", "a tensor returned by an earlier SWAP.apply of the same object changed after later applications")
                    if sc["type"] != "density" and (i + 2 * j + ai) % 5 == 0:
                        # wavefunction states accept integer / single-precision sample tensors: the estimator's value must not depend on it
                        for dt in (torch.int64, torch.float32):
                            o2 = obs.apply(state, two.to(dt))
                            require(abs(float(o2[0]) - float(out[0])) <= 1e-6 * (1 + abs(float(out[0]))), "sample-dtype", f"SWAP value changes when the same states are given as a {dt} tensor: {float(o2[0])} vs {float(out[0])}")
            if F is None:
                F = Fm
            else:
                require(bool(torch.all(((F - Fm).abs() <= 1e-12 * (1 + F.abs())) | ~done)), "region-format", f"region {A} given in another form (bare int / other order of the sites: {form!r}) differs from the same region given as an ascending sequence")
        est = float(p @ F @ p)
        ref = float(torch.trace(torch.linalg.matrix_power(R.partial_trace(rho, n, A), 2)).real) if A else 1.0
        if len(A) == n:
            ref = pur_full
        require(abs(est - ref) <= 1e-7, "purity", f"exact average of SWAP over independent pairs = {est:.10f}, tr(rho_A^2) = {ref:.10f} for A={A} (n={n}, {sc['type']})")
        require(est <= 1 + 1e-7 and -np.log(max(est, 1e-300)) >= -1e-7, "renyi-negative", f"second Renyi entropy negative for A={A}: purity {est}")
        purity[tuple(A)] = est
        # pairing rule on a longer batch: out[b] = f(s_b, s_{b+d mod B}) for one cyclic shift d
        keep = batch.clone()
        out = SWAP(forms[0]).apply(state, batch).double()
        require(torch.equal(batch, keep), "mutated", "SWAP.apply modified the batch")
        Bn = batch.shape[0]
        require(tuple(out.shape) == (Bn,), "shape", f"SWAP.apply returned shape {tuple(out.shape)} for a batch of {Bn}")
        idx = case["batch"]
        ok = False
        for d in (+1, -1):
            want = torch.tensor([F[idx[b], idx[(b + d) % Bn]] for b in range(Bn)], dtype=torch.double)
            ok = ok or bool(torch.all((out - want).abs() <= 1e-9 * (1 + want.abs())))
        require(ok, "pairing", f"within a batch each sample must be paired with a cyclic neighbour (A={A})", got=out.tolist())
    # shared object: one region array (sites counted from the end: -1 = last site) handed to observables that are used with two states of
    # different size; the caller's array is never rewritten and always means "the last site" of the state at hand
    neg = np.array([-1], dtype=np.int64)
    o_neg = SWAP(neg)
    v_a = o_neg.apply(state, batch).double()
    v_b = SWAP([n - 1]).apply(state, batch).double()
    from qucumber.nn_states import PositiveWaveFunction as _PW
    torch.manual_seed(7)
    st2 = _PW(n + 1, 2, gpu=False)
    b2 = R.rows_from_indices([(3 * i + 1) % (2 ** (n + 1)) for i in range(5)], n + 1)
    w_a = SWAP(neg).apply(st2, b2).double()
    w_a2 = o_neg.apply(st2, b2).double()
    w_b = SWAP([n]).apply(st2, b2).double()
    require(neg.tolist() == [-1], "region-array-rewritten", "SWAP rewrote the caller's region array")
    require(bool(torch.all((v_a - v_b).abs() <= 1e-12 * (1 + v_b.abs()))) and bool(torch.all((w_a - w_b).abs() <= 1e-12 * (1 + w_b.abs()))) and
            bool(torch.all((w_a2 - w_b).abs() <= 1e-12 * (1 + w_b.abs()))), "region-from-the-end",
            "a region given as [-1] (last site) does not give the last site's value for every state it is used with")
    # lifecycle: ONE observable object, evaluated, then its public region attribute re-assigned, evaluated again (region after region)
    roam = SWAP(regions[-1])
    roam.apply(state, batch)
    # after an exception: the same object (region = all sites) is applied to inputs it refuses - a single 1-D configuration, a batch whose
    # width does not match the state, samples of another rank - and the caller catches the exception; then the region is re-assigned
    def refused_applies(k_):
        roam.A = list(regions[-1])
        bads = [lambda: roam.apply(state, batch.clone().reshape(1, -1, n)), lambda: roam.apply(state, torch.zeros(2, max(n - 1, 1), dtype=torch.double)),
                lambda: roam.apply(state, torch.zeros(4, n + 1, dtype=torch.double)), lambda: roam.apply(state, batch[0].clone())]
        for bad_ in bads[k_ % 3:3] + bads[: k_ % 3] + bads[3:]:          # the order varies; the last one (a single 1-D configuration) always raises
            try:
                bad_()
            except Exception:
                pass
    refused_applies(0)
    idx_r = case["batch"]
    Bn_r = batch.shape[0]
    for k_, A in enumerate(regions[:4]):
        if k_:
            refused_applies(k_)
        roam.A = list(A)
        out = roam.apply(state, batch).double()
        ok = False
        for d in (+1, -1):
            want = torch.tensor([pair_ref(idx_r[b], idx_r[(b + d) % Bn_r], A) for b in range(Bn_r)], dtype=torch.double)
            ok = ok or bool(torch.all((out - want).abs() <= 1e-6 * want.abs() + 1e-9))
        require(ok, "region-reassigned-after-evaluation", f"after obs.A was re-assigned to {A} on an observable that had already been evaluated, SWAP is not the value of the new region")
    if case.get("alt"):
        # history on the same state object and the same batch tensor: parameters A (above) -> B written in place -> A restored
        altc = dict(sc, am=case["alt"]["am"], ph=case["alt"]["ph"])
        am2, ph2 = gen.ref_nets(altc)
        ref2 = R.rho_ref(am2, ph2, V) if sc["type"] == "density" else R.psi_ref(am2, ph2, V)
        idx = case["batch"]
        Bn = batch.shape[0]
        regs = [A for A in regions if 0 < len(A)][:3]
        objs = {tuple(A): SWAP(list(A)) for A in regs}
        first = {tuple(A): objs[tuple(A)].apply(state, batch).double().clone() for A in regs}
        for label, params, refst in (("B", altc, ref2), ("A again", sc, ref_state)):
            gen.set_net(state.rbm_am, params["am"])
            if params.get("ph"):
                gen.set_net(state.rbm_ph, params["ph"])
            for A in regs:
                out = objs[tuple(A)].apply(state, batch).double()
                ok = False
                for d in (+1, -1):
                    want = torch.tensor([pair_ref(idx[b], idx[(b + d) % Bn], A, refst) for b in range(Bn)], dtype=torch.double)
                    ok = ok or bool(torch.all((out - want).abs() <= 1e-6 * want.abs() + 1e-9))
                require(ok, "after-inplace-update:pair-value", f"after the parameters were changed in place (now parameter set {label}) SWAP on the same batch is not the product of the importance weights of the CURRENT state (A={A})")
                if label == "A again":
                    require(bool(torch.all((out - first[tuple(A)]).abs() <= 1e-12 * (1 + first[tuple(A)].abs()))), "after-inplace-update:not-restored", f"with the first parameters restored SWAP differs from its first evaluation (A={A})")
    if sc["type"] != "density":
        for A in regions:
            comp = tuple(sorted(set(range(n)) - set(A)))
            require(abs(purity[tuple(A)] - purity[comp]) <= 1e-7, "pure:complement", f"pure state: purity of A={A} differs from its complement")
        require(abs(purity[()] - 1) <= 1e-7 and abs(purity[tuple(range(n))] - 1) <= 1e-7, "pure:trivial-regions", "pure state: empty/full region purity is not 1")
    nt = n >= 2 and gen.all_biases_nonzero(sc) and (sc["type"] != "density" or pur_full < 1 - 1e-6)
    return {"nontrivial": nt, "labels": gen.arch_label(sc)}


SUBCHECKS = [Sub("purity", check, strategy=lambda tier: cases(tier), quick=160, thorough=3200, per_shard=5)]
