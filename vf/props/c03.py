"""C03 - Training gradients are the exact gradients of the negative log-likelihood."""
import numpy as np
import torch
from hypothesis import strategies as st

from vf import gen, refmodel as R
from vf.common import Sub, require, PropertyViolation

PROPERTY = "C03"
RULE = ("Generated: state type (3) x n 1..3 (thorough: ..4) x nh 1..4 x na 1..3, parameters with per-tensor scale <= 2 and "
        "all biases drawn non-zero, a dataset of 1..8 rows each with its own basis string drawn from the enumerated {X,Y,Z}^n "
        "(first row all-Z, second row rotated when N>=2, repeats likely), outcomes drawn by inverse CDF from the reference Born "
        "distribution in the row's basis, a row permutation and a split point. Oracle A: torch.autograd gradient of the reference "
        "NLL (enumerated hidden/aux units, dense Kronecker unitaries; +1e-8 inside the log for rotated rows of mixed states) "
        "flattened in rbm.parameters() order. Oracle B: batch positive phase = mean of 1-D per-row gradients = invariant under "
        "permutation and weighted split. Oracle C: every public gradient method is callable and agrees. Non-trivial = "
        "(complex/density) >= 2 distinct bases one containing Y, or (positive) >= 2 distinct rows; all biases non-zero.")
RULE_EXT = ('Extended as built: single-basis batches of 100-300 rows, n = 8, 9 states, polarised parameter regimes with rare outcomes (rows excluded only by conditioning |sum terms|/sum|terms| < 1e-6, counted), bases passed as ndarray / list / str, gradients re-evaluated along an in-place history A -> B -> A, deprecated aliases. Rounds 5-6: user-added / overridden unitaries with user letters in measurement bases; load() of a file with other unitaries for the same letters, then gradients again; the bases=None route vs spelled-out all-Z bases; compute_batch_gradients(k, batch, batch) called directly (same tensor in both roles, replayed under the same seed); uniformly negative polarised biases with small compensating weights; num_aux = 0.')
RULE_EXT += ' Round 10 (after an exception / long time axis): refused gradient calls (unknown basis letter, wrong width, mismatched bases; caught) each followed by a direct gradient() call that must repeat its earlier value; 36 other bases arrays / batches on the same object, then the first data set again.'
RULE_EXT += ' Round 11 (re-entrant use / feature interactions): compute_exact_gradients (twice) and positive_phase_gradients asked for from inside the callbacks of a running fit on the same data vs the autograd reference at the parameters of that moment.'
RULE = RULE + " " + RULE_EXT
ASSUMPTIONS = ["parameter scale <= 2 (the gradient of -log p is ill-conditioned where p ~ 0)",
               "tolerance |g - g_ref| <= 1e-6*(1+max|g_ref|)", "CPU, float64"]


@st.composite
def cases(draw, tier):
    t = draw(st.sampled_from(gen.TYPES))
    nmax = 3 if tier == "quick" else 4      # the property's quantifier goes to num_visible = 4 (thorough tier, all three types)
    if t != "density" and draw(st.integers(0, 24)) == 0:
        # beyond the box: a register with more than 128 / 256 basis states (size-dependent code paths in the exact negative phase)
        sc = draw(gen.state_case(types=[t], n=(8, 9), nh=(1, 3), scales=[0.05, 0.5, 1.0], bound=40.0))
        sc["large"] = True
    else:
        sc = draw(gen.state_case(types=[t], n=(1, nmax), nh=(1, 4), na=(1, 3), scales=[0.05, 0.5, 0.5, 2.0, 2.0, 2.0, 8.0, 20.0], bound=60.0,
                                unitaries=True))        # half of the complex/mixed states carry user-added / overridden single-qubit unitaries
    n = sc["n"]
    if sc.get("unitaries") and draw(st.booleans()):
        sc["unitaries2"] = {k: [draw(gen.ANGLE) for _ in range(4)] for k in sc["unitaries"]}
    polarised = draw(st.integers(0, 7)) == 0
    if polarised and not sc.get("large"):
        # value regime: strongly polarised amplitude network (visible biases of magnitude 12..30, either sign) - outcome probabilities
        # span many orders of magnitude WITHOUT cancellation, i.e. tiny but well-conditioned
        sign_mode = draw(st.sampled_from(["neg", "neg", "pos", "mixed"]))     # all negative: every unnormalised amplitude but one is tiny
        sc["am"]["b"] = [{"neg": -1.0, "pos": 1.0}.get(sign_mode, draw(st.sampled_from([-1.0, 1.0]))) * draw(st.floats(12.0, 30.0, allow_nan=False, width=64)) for _ in range(n)]
        if draw(st.booleans()):
            # ... and nothing that compensates the visible biases (small weights and hidden biases): the unnormalised amplitudes themselves are tiny
            shrink = lambda x: [shrink(y) for y in x] if isinstance(x, list) else x / (1.0 + abs(x))
            sc["am"]["W"], sc["am"]["c"] = shrink(sc["am"]["W"]), shrink(sc["am"]["c"])
        sc["polarised"] = True
    N = draw(st.integers(1, 8))
    U01 = st.floats(0, 1, exclude_max=True, allow_nan=False, width=64)
    rows = []
    if sc.get("large"):
        allb = ["Z" * n, "X" + "Z" * (n - 1), "Z" * (n - 2) + "YX", "XY" + "Z" * (n - 2)]
    else:
        allb = gen.basis_strings(n, "XYZ" + "".join(sorted(k for k in (sc.get("unitaries") or {}) if k not in "XYZ")))     # user letters may appear in measurement bases
    rot = [b for b in allb if set(b) != {"Z"}]
    all_ref = t != "positive" and draw(st.integers(0, 9)) == 0      # a complex / mixed state with data measured in the reference basis only
    for i in range(N):
        if t == "positive" or all_ref:
            b = "Z" * n
        elif i == 0:
            b = "Z" * n
        elif i == 1:
            b = draw(st.sampled_from(rot))
        else:
            b = draw(st.sampled_from(allb)) if draw(st.booleans()) else rows[draw(st.integers(0, i - 1))]["basis"]
        rows.append({"basis": b, "u": draw(U01)})
        if draw(st.integers(0, 9)) == 0 or (polarised and draw(st.booleans())):
            rows[-1]["rare"] = True
    if t != "positive" and not sc.get("large") and n >= 2 and len(allb) >= 16 and draw(st.integers(0, 2)) == 0:
        # feature interaction: user letters + many different bases in ONE batch (10-16 distinct basis strings drawn from the whole alphabet, so
        # that every letter - also the user's - occurs, in every position) + the reference basis
        pick = draw(st.permutations(allb))[: draw(st.integers(10, 16))]
        rows = [{"basis": "Z" * n, "u": draw(U01)}] + [{"basis": b_, "u": draw(U01)} for b_ in pick]
        N = len(rows)
        sc["many_bases"] = True
    big = draw(st.integers(0, 19)) == 0
    if big:
        # a large batch concentrated in few bases (size-dependent code paths such as chunked evaluation of a basis group)
        g = draw(st.integers(100, 300))                       # rows of ONE basis group (the rotated one when there is one)
        main = rows[1]["basis"] if len(rows) > 1 else rows[0]["basis"]
        us = draw(st.lists(U01, min_size=g, max_size=g))
        rows = rows + [{"basis": main, "u": u} for u in us]
        N = len(rows)
    perm = draw(st.permutations(list(range(N)))) if not big else list(range(N - 1, -1, -1))
    c = {"state": sc, "rows": rows, "perm": list(perm), "split": draw(st.integers(0, N)), "big": big}
    # second parameter set written in place into the same object after the first evaluation (evaluate, update, evaluate)
    if draw(st.booleans()):
        alt = draw(gen.state_case(types=[t], n=(n, n), nh=(sc["nh"], sc["nh"]), na=(sc.get("na", 1), sc.get("na", 1)), scales=[0.05, 0.5, 2.0], bound=60.0))
        c["am2"], c["ph2"] = alt["am"], alt.get("ph")
    return c


MIN_ROW_PROB = 1e-6     # threshold on 1/condition: rows whose rotated amplitude is a sum cancelling to < 1e-6 of its terms are ill-conditioned for
                        # ANY float64 implementation (d(-log p) amplifies the rounding of the terms): excluded and counted.  A tiny probability that
                        # is NOT due to cancellation (strongly polarised states) is well-conditioned and stays in the domain.


def vanishing_offdiagonal_element(case):
    """Computed predicate of known finding F1: a mixed state with an off-diagonal element rho(v, v') that vanishes (to 1e-6 of its natural
    size) because one auxiliary unit's factor 1 + exp(d_k + U_am,k.(v+v')/2 + i U_ph,k.(v-v')/2) does.  The library differentiates
    log rho(v, v'), which is singular there (0 * inf), although the NLL itself is smooth.  Both parameter sets of a case are examined."""
    sc = case.get("state") or {}
    if sc.get("type") != "density":
        return False
    import itertools
    n = sc["n"]
    sets = [(sc["am"], sc["ph"])]
    if case.get("am2") and case.get("ph2"):
        sets.append((case["am2"], case["ph2"]))
    vs = list(itertools.product([0.0, 1.0], repeat=n))
    for am, ph in sets:
        for k in range(len(am["d"])):
            ua, up, d = am["U"][k], ph["U"][k], am["d"][k]
            for v in vs:
                for vp in vs:
                    if v == vp:
                        continue
                    re_ = d + 0.5 * sum(u * (a + b) for u, a, b in zip(ua, v, vp))
                    im_ = 0.5 * sum(u * (a - b) for u, a, b in zip(up, v, vp))
                    if abs(complex(1.0, 0.0) + np.exp(complex(re_, im_))) < 1e-6 * (1.0 + np.exp(re_)):
                        return True
    return False


from vf import common as _common
_common.KNOWN_PREDICATES["vanishing_offdiagonal_element"] = vanishing_offdiagonal_element


def born_rows(case, with_probs=False):
    """Resolve outcomes (inverse CDF of the reference Born distribution in each row's basis)."""
    probs = []
    sc = case["state"]
    n = sc["n"]
    am, ph = gen.ref_nets(sc)
    V = R.bits(n)
    ud = gen.ref_unitary_dict(sc)
    with torch.no_grad():
        if sc["type"] == "density":
            rho = R.rho_ref(am, ph, V)
        else:
            psi = R.psi_ref(am, ph, V)
        out = []
        for r in case["rows"]:
            U = R.kron_U(ud, r["basis"])
            if sc["type"] == "density":
                p = (U @ rho @ U.conj().t()).diagonal().real.clamp(min=0)
            else:
                p = (U @ psi).abs() ** 2
            cdf = torch.cumsum(p / p.sum(), 0)
            k = int(torch.searchsorted(cdf, torch.tensor(r["u"], dtype=R.F64), right=True).clamp(max=2 ** n - 1))  # first outcome with cdf > u: never a zero-probability one
            if r.get("rare"):
                # deliberately the LEAST likely outcome with non-zero probability (data need not be typical of the model)
                pos = torch.where(p > 0, p, torch.full_like(p, float("inf")))
                k = int(torch.argmin(pos))
            out.append((r["basis"], k))
            # 1 / condition number of the rotated probability: |sum of terms| / sum |terms|
            if sc["type"] == "density":
                terms = (U[k][:, None] * rho * U[k].conj()[None, :])
                cond = float(p[k] / (terms.abs().sum() + 1e-300))
            else:
                terms = U[k] * psi
                cond = float(terms.sum().abs() / (terms.abs().sum() + 1e-300))
            probs.append(cond)
    if with_probs:
        return out, probs
    return out


def ref_grads(sc, rows, with_Z=True, mean=True):
    """autograd gradient of the reference (positive-phase or full) NLL w.r.t. every named parameter."""
    n = sc["n"]
    am = R.with_grad(R.net_from_case(sc["am"]))
    ph = R.with_grad(R.net_from_case(sc["ph"])) if sc.get("ph") else None
    V = R.bits(n)
    ud = gen.ref_unitary_dict(sc)
    dens = sc["type"] == "density"
    if dens:
        rho = R.rho_ref(am, ph, V)
        Z = rho.diagonal().real.sum()
    else:
        psi = R.psi_ref(am, ph, V)
        Z = (psi.abs() ** 2).sum()
    loss = torch.zeros((), dtype=R.F64)
    for basis, k in rows:
        U = R.kron_U(ud, basis)
        if dens:
            p = (U[k] @ rho @ U[k].conj()).real
            if set(basis) != {"Z"}:
                p = p + 1e-8          # the library's documented regulariser of rotated probabilities
        else:
            a = U[k] @ psi
            p = a.real ** 2 + a.imag ** 2
        loss = loss - torch.log(p)
    if mean:
        loss = loss / len(rows)
    if with_Z:
        loss = loss + torch.log(Z)
    nets = [("am", am)] + ([("ph", ph)] if ph is not None else [])
    out = {}
    for name, net in nets:
        keys = list(net.keys())
        gs = torch.autograd.grad(loss, [net[k] for k in keys], allow_unused=True, retain_graph=True)
        out[name] = {k: (g if g is not None else torch.zeros_like(net[k])) for k, g in zip(keys, gs)}
    return out


def cmp_grads(state, got, ref, what, rtol=1e-6):
    nets = state.networks
    require(isinstance(got, (list, tuple)) and len(got) == len(nets), what + ":structure", f"{what}: expected a list of {len(nets)} gradient vectors")
    for i, net in enumerate(nets):
        rbm = getattr(state, net)
        want = gen.flat_in_param_order(rbm, ref["am" if net == "rbm_am" else "ph"])
        g = got[i]
        if not isinstance(g, torch.Tensor):   # a python 0.0 is how "no gradient" is reported for the phase net on Z-only data
            g = torch.full_like(want, float(g))
        g = g.double().reshape(-1)
        require(g.shape == want.shape, what + ":length", f"{what}[{net}]: length {tuple(g.shape)} != num_pars {tuple(want.shape)}")
        tol = rtol * (1 + float(want.abs().max()))
        bad = (g - want).abs() > tol
        if bool(bad.any()):
            # which parameter block is wrong?
            names = [n for n, _ in rbm.named_parameters()]
            sizes = [p.numel() for _, p in rbm.named_parameters()]
            offs = np.cumsum([0] + sizes)
            j = int(torch.nonzero(bad)[0])
            blk = next(names[b] for b in range(len(names)) if offs[b] <= j < offs[b + 1])
            require(False, f"{what}:{net}", f"{what}: gradient of {net} differs from the autograd gradient of the reference NLL (first bad entry in block {blk})",
                    got=g.tolist(), ref=want.tolist())


def same(a, b, what, rtol=1e-9):
    require(len(a) == len(b), what + ":structure", what)
    for x, y in zip(a, b):
        x = x if isinstance(x, torch.Tensor) else torch.tensor(float(x))
        y = y if isinstance(y, torch.Tensor) else torch.tensor(float(y))
        x, y = torch.broadcast_tensors(x.double(), y.double())
        require(bool(torch.all((x - y).abs() <= rtol * (1 + y.abs().max()))), what, what, a=x.tolist(), b=y.tolist())


def check(case):
    state = gen.build_state(case["state"])
    r = check_round(case, state)
    if case.get("am2") and not r.get("excluded"):
        # same object, parameters overwritten in place (p.data.copy_): the gradients must be those of the NEW parameters
        gen.set_net(state.rbm_am, case["am2"])
        if case.get("ph2"):
            gen.set_net(state.rbm_ph, case["ph2"])
        sc2 = dict(case["state"], am=case["am2"])
        if case.get("ph2"):
            sc2["ph"] = case["ph2"]
        c2 = dict(case, state=sc2)
        try:
            r2 = check_round(c2, state)
        except PropertyViolation as v:
            raise PropertyViolation("after-inplace-update:" + v.bucket, "after an in-place parameter update of the same object: " + v.message, v.detail)
        gen.set_net(state.rbm_am, case["state"]["am"])
        if case["state"].get("ph"):
            gen.set_net(state.rbm_ph, case["state"]["ph"])
        try:
            check_round(case, state)
        except PropertyViolation as v:
            raise PropertyViolation("after-second-inplace-update:" + v.bucket, "after a second in-place parameter update (back to the first values): " + v.message, v.detail)
    if not r.get("excluded"):
        mir = gen.mirrored(case["state"])
        gen.reinit_and_set(state, mir)
        try:
            check_round(dict(case, state=mir), state)
        except PropertyViolation as v:
            raise PropertyViolation("after-reinitialise:" + v.bucket, "after reinitialize_parameters() and writing OTHER parameters into the new parameter objects: " + v.message, v.detail)
        gen.set_net(state.rbm_am, case["state"]["am"])
        if case["state"].get("ph"):
            gen.set_net(state.rbm_ph, case["state"]["ph"])
    if not r.get("excluded") and case["split"] % 2 == 0:
        # after an exception + long time axis: gradient calls that are refused (unknown basis letter, samples of the wrong width, bases that do
        # not match the samples; caught as a caller would), then gradients for 36 DIFFERENT bases arrays / batches on this one object, then the
        # data set of the first round again: every quantity must be what it was
        n_, t_ = case["state"]["n"], case["state"]["type"]
        sp_ = state.generate_hilbert_space()
        smp_ = sp_[: min(3, sp_.shape[0])].clone()
        bad_calls = [lambda: state.gradient(torch.zeros(2, n_ + 1, dtype=torch.double), **({} if t_ == "positive" else {"bases": np.array([["Z"] * (n_ + 1)] * 2)})),
                     lambda: state.positive_phase_gradients(torch.zeros(3, n_ + 2, dtype=torch.double), **({} if t_ == "positive" else {"bases_batch": np.array([["Z"] * (n_ + 2)] * 3)}))]
        if t_ != "positive":
            bad_calls += [lambda: state.positive_phase_gradients(smp_.clone(), bases_batch=np.array([["Q"] * n_] * smp_.shape[0])),
                          lambda: state.gradient(smp_.clone(), bases=np.array([["Q"] + ["Z"] * (n_ - 1)] * smp_.shape[0])),
                          lambda: state.compute_exact_gradients(smp_.clone(), sp_, bases_batch=np.array([["X"] * n_] * (smp_.shape[0] + 2))),
                          lambda: state.gradient(smp_[0].clone(), bases=["Q"] * n_)]
        G_ = {} if t_ == "positive" else {"bases": np.array([["Z"] * n_] * smp_.shape[0])}
        g_before = [g_.clone() if isinstance(g_, torch.Tensor) else g_ for g_ in state.gradient(smp_.clone(), **G_)]
        for f_ in bad_calls:
            try:
                f_()
            except Exception:
                pass
            g_after = state.gradient(smp_.clone(), **G_)          # a direct gradient() call right after each refused call: same inputs, same parameters
            for a_, b_ in zip(g_before, g_after):
                ok_ = bool(torch.all((a_ - b_).abs() <= 1e-12 * (1 + a_.abs()))) if isinstance(a_, torch.Tensor) else a_ == b_
                require(ok_, "after-refused-call:gradient-changed", "gradient(samples, bases) of the same samples and parameters differs after a refused gradient call (caught) on the same object")
        for i_ in range(36):
            rows_i = [(i_ * 7 + j_) % sp_.shape[0] for j_ in range(3)]
            if t_ == "positive":
                state.positive_phase_gradients(sp_[rows_i].clone())
            else:
                b_i = np.array([["XYZ"[((i_ + 1) * (j_ + 2) // (3 ** s_)) % 3] for s_ in range(n_)] for j_ in range(3)])
                state.positive_phase_gradients(sp_[rows_i].clone(), bases_batch=b_i)
                if i_ % 6 == 0:
                    state.gradient(sp_[rows_i].clone(), bases=b_i)
        try:
            check_round(case, state)
        except PropertyViolation as v:
            raise PropertyViolation("after-refused-calls-and-many-batches:" + v.bucket, "after refused gradient calls (caught) and gradients for 36 other bases arrays on the same object: " + v.message, v.detail)
    if not r.get("excluded") and case["split"] % 3 == 1 and case["state"]["n"] <= 3:
        # re-entrant use: the exact gradients (and the positive phase) asked for - twice - from INSIDE the callbacks of a running fit on the
        # same data: each answer must be the gradient at the parameters the model has at that moment
        from qucumber.callbacks import LambdaCallback
        sc_ = case["state"]
        n_, t_ = sc_["n"], sc_["type"]
        rows_, probs_ = born_rows(case, with_probs=True)
        smp_ = R.rows_from_indices([k_ for _, k_ in rows_], n_)
        bas_ = np.array([list(b_) for b_, _ in rows_]).reshape(len(rows_), n_)
        sp_ = state.generate_hilbert_space()
        BB_ = {"bases_batch": bas_} if t_ != "positive" else {}
        seen_ = []

        def look(s_):
            nets_ = {"am": {k_: v_.tolist() for k_, v_ in gen.net_of(s_.rbm_am).items()}}
            if t_ != "positive":
                nets_["ph"] = {k_: v_.tolist() for k_, v_ in gen.net_of(s_.rbm_ph).items()}
            g1_ = s_.compute_exact_gradients(smp_.clone(), sp_, **BB_)
            g2_ = s_.compute_exact_gradients(smp_.clone(), sp_, **BB_)
            pp_ = s_.positive_phase_gradients(smp_.clone(), **BB_)
            seen_.append((nets_, [g_.clone() if isinstance(g_, torch.Tensor) else g_ for g_ in g1_], [g_.clone() if isinstance(g_, torch.Tensor) else g_ for g_ in g2_],
                          [g_.clone() if isinstance(g_, torch.Tensor) else g_ for g_ in pp_]))
        guard_, div_ = gen.divergence_guard()
        state.fit(smp_.clone(), epochs=2, pos_batch_size=2, lr=0.01, callbacks=[LambdaCallback(on_batch_end=lambda s_, e_, b_: look(s_), on_epoch_start=lambda s_, e_: look(s_)), guard_],
                  **({"input_bases": bas_} if t_ != "positive" else {}))
        state.stop_training = False
        if not div_[0]:
            for j_, (nets_, g1_, g2_, pp_) in enumerate(seen_[1:4]):
                sc_now = dict(sc_, **nets_)
                _, pr_now = born_rows(dict(case, state=sc_now), with_probs=True) if False else (None, probs_)
                ref_full = ref_grads(sc_now, rows_, with_Z=True)
                cmp_grads(state, g1_, ref_full, f"inside-fit-callback:compute_exact_gradients(look #{j_})")
                cmp_grads(state, g2_, ref_full, f"inside-fit-callback:compute_exact_gradients-second-call(look #{j_})")
                cmp_grads(state, pp_, ref_grads(sc_now, rows_, with_Z=False), f"inside-fit-callback:positive_phase_gradients(look #{j_})")
        gen.set_net(state.rbm_am, sc_["am"])
        if sc_.get("ph"):
            gen.set_net(state.rbm_ph, sc_["ph"])
    if case["state"].get("unitaries2"):
        # history: the state loads a file written by a twin with the same parameters but OTHER user unitaries for the same letters;
        # from then on gradients in rotated bases must follow the loaded dictionary
        import io
        sc3 = dict(case["state"], unitaries=case["state"]["unitaries2"])
        twin = gen.build_state(sc3)
        buf = io.BytesIO()
        twin.save(buf)
        buf.seek(0)
        state.load(buf)
        try:
            check_round(dict(case, state=sc3), state)
        except PropertyViolation as v:
            raise PropertyViolation("after-load-other-unitaries:" + v.bucket, "after load() of a file carrying other user unitaries: " + v.message, v.detail)
    return r


def check_round(case, state):
    sc = case["state"]
    n, t = sc["n"], sc["type"]
    rows, probs = born_rows(case, with_probs=True)
    if min(probs) < MIN_ROW_PROB:
        return {"nontrivial": False, "excluded": 1, "labels": ["excluded:ill-conditioned-row"]}
    N = len(rows)
    samples = R.rows_from_indices([k for _, k in rows], n)
    bases = np.array([list(b) for b, _ in rows]).reshape(N, n)
    space = state.generate_hilbert_space()
    keep = [p.data.clone() for net in state.networks for p in getattr(state, net).parameters()]
    B = (lambda b: {"bases_batch": b}) if t != "positive" else (lambda b: {})
    G = (lambda b: {"bases": b}) if t != "positive" else (lambda b: {})

    # Oracle A
    full = state.compute_exact_gradients(samples.clone(), space, **B(bases))
    cmp_grads(state, full, ref_grads(sc, rows, with_Z=True), "compute_exact_gradients")
    pp = state.positive_phase_gradients(samples.clone(), **B(bases))
    cmp_grads(state, pp, ref_grads(sc, rows, with_Z=False), "positive_phase_gradients")
    gs = state.gradient(samples.clone(), **G(bases))
    cmp_grads(state, gs, ref_grads(sc, rows, with_Z=False, mean=False), "gradient")
    # precision tier: the reference NLL with hidden units in product form (torch softplus, see refmodel.library_precision) follows the
    # library's documented arithmetic (value: thresholded softplus, derivative: exact sigmoid), so its autograd gradient must be met to ~2e-10 of the gradient's scale
    prec = 2e-10 + 50 * 2.2e-16 / min(probs)       # 2e-10 of the gradient's scale, plus the rounding any implementation incurs on the worst-conditioned admitted row
    if t == "density" and gen.max_preactivation(sc) > 18.0:
        prec = max(prec, 1e-8)      # mixed states: the auxiliary-unit terms of the gradient carry the documented e^-20 softplus deviation once a pre-activation can pass the threshold
    with R.library_precision():
        cmp_grads(state, full, ref_grads(sc, rows, with_Z=True), "precision:compute_exact_gradients", rtol=prec)
        cmp_grads(state, pp, ref_grads(sc, rows, with_Z=False), "precision:positive_phase_gradients", rtol=prec)
        cmp_grads(state, gs, ref_grads(sc, rows, with_Z=False, mean=False), "precision:gradient", rtol=prec)

    # Oracle B: per-sample 1-D form, permutation, split
    acc = None
    for i in (range(N) if N <= 40 else []):
        bform = bases[i] if i % 3 == 0 else (list(bases[i]) if i % 3 == 1 else "".join(bases[i]))    # documented: numpy.ndarray or list[str]; a str behaves as a list of letters
        gi = state.gradient(samples[i].clone(), **G(bform))
        gi = [x if isinstance(x, torch.Tensor) else torch.zeros_like(gs[j]) + float(x) for j, x in enumerate(gi)]
        acc = gi if acc is None else [a + b for a, b in zip(acc, gi)]
    if acc is not None:
        same([a / N for a in acc], pp, "positive phase != mean of per-sample (1-D call form) gradients")
    perm = case["perm"]
    same(state.positive_phase_gradients(samples[perm].clone(), **B(bases[perm])), pp, "positive phase changes under a row permutation")
    s = case["split"]
    if 0 < s < N:
        p1 = state.positive_phase_gradients(samples[:s].clone(), **B(bases[:s]))
        p2 = state.positive_phase_gradients(samples[s:].clone(), **B(bases[s:]))
        mix = []
        for a, b in zip(p1, p2):
            a = a if isinstance(a, torch.Tensor) else torch.tensor(float(a), dtype=torch.double)
            b = b if isinstance(b, torch.Tensor) else torch.tensor(float(b), dtype=torch.double)
            mix.append(a * (s / N) + b * ((N - s) / N))
        same(mix, pp, "positive phase of a batch != size-weighted combination of its two parts")

    # Oracle C: public aliases
    if t == "positive":
        alias = state.compute_exact_grads(samples.clone(), space)
        same(alias, full, "PositiveWaveFunction.compute_exact_grads disagrees with compute_exact_gradients")
        same(state.gradient(samples.clone(), "ignored", extra=1), gs, "PositiveWaveFunction.gradient with ignored extras differs")
        same(state.positive_phase_gradients(samples.clone(), bases), pp, "PositiveWaveFunction.positive_phase_gradients with ignored extras differs")
    else:
        # the documented bases=None route (reference-basis data): same as spelling the all-Z bases out
        zi = [i for i, (b, _) in enumerate(rows) if set(b) == {"Z"}][:40]
        if zi:
            sz, bz = samples[zi], bases[zi]
            same(state.gradient(sz.clone()), state.gradient(sz.clone(), bases=bz), "gradient(samples) without bases differs from gradient with all-Z bases")
            same(state.positive_phase_gradients(sz.clone()), state.positive_phase_gradients(sz.clone(), bases_batch=bz),
                 "positive_phase_gradients(samples) without bases differs from the all-Z bases form")
            same(state.compute_exact_gradients(sz.clone(), space), state.compute_exact_gradients(sz.clone(), space, bases_batch=bz),
                 "compute_exact_gradients(samples, space) without bases differs from the all-Z bases form")
    # the per-batch training entry point called directly, with the SAME tensor as positive and negative batch: positive phase of the
    # batch as given minus the mean energy gradient of the chain end states (replayed under the same torch seed); inputs untouched
    if N <= 40:
        kk = 1 + (case["split"] % 2)
        sb = samples.clone()
        torch.manual_seed(1000 + case["split"])
        vk = state.rbm_am.gibbs_steps(kk, sb.clone())
        torch.manual_seed(1000 + case["split"])
        cb = state.compute_batch_gradients(kk, sb, sb, *([bases] if t != "positive" else []))
        require(torch.equal(sb, samples), "compute_batch_gradients:inputs-mutated", "compute_batch_gradients modified the batch it was given")
        want_cb = [x.clone() if isinstance(x, torch.Tensor) else x for x in pp]
        want_cb[0] = want_cb[0] - state.rbm_am.effective_energy_gradient(vk) / float(N)
        same(cb, want_cb, "compute_batch_gradients(k, batch, batch) != positive phase of the batch minus mean energy gradient of the chain end states")
    now = [p.data for net in state.networks for p in getattr(state, net).parameters()]
    require(all(torch.equal(a, b) for a, b in zip(keep, now)), "params-mutated", "computing gradients changed a model parameter")

    bs = {b for b, _ in rows}
    if t == "positive":
        nt = len({k for _, k in rows}) >= 2
    else:
        nt = len(bs) >= 2 and any("Y" in b for b in bs)
    return {"nontrivial": nt and gen.all_biases_nonzero(sc),
            "labels": gen.arch_label(sc) + (["user_unitaries"] if sc.get("unitaries") else []) + [f"N={N}" if N <= 8 else "N>=120(big batch)"] + (["has_Y"] if any("Y" in b for b in bs) else []) + (["repeated_basis"] if len(bs) < N else [])}


SUBCHECKS = [Sub("nll_gradients", check, strategy=lambda tier: cases(tier), quick=640, thorough=15000)]
