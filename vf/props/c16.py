"""C16 - Composite observables evaluate to the same arithmetic on their parts."""
import math

import numpy as np
import torch
from hypothesis import strategies as st

from vf import gen, refmodel as R
from vf.common import Sub, require, expect_raises, fail

PROPERTY = "C16"
RULE = ("Generated expression trees (recursive Hypothesis strategy, depth <= 6) over the built-in observables (SigmaX/Y/Z, "
        "NeighbourInteraction variants, SWAP) and Python scalars (int, float, numpy.float64; 0 and negatives included) with unary "
        "minus, +, -, * and the scalar on either side, BUILT THROUGH THE OPERATOR OVERLOADS; evaluated on a generated state (three "
        "types, random parameters) and batch. Oracle: an interpreter of the same tree over the leaves' apply values; "
        "statistics_from_samples of the composite == var/mean of the interpreter's per-sample values. Rejection cases: observable "
        "* observable -> ValueError, str/None/list/tensor operands -> TypeError, at build time. Non-trivial = depth >= 3 with a "
        "reflected operator (scalar - obs or scalar * obs) and a subtraction.")
RULE_EXT = ('Extended as built: every expression is evaluated in two passes (operand re-evaluation), leaves shared by several parents, same-named leaves, coefficients 1e-9..1e9, integer (long) sample batches with tolerance 1e-5 (float32 promotion). Rounds 5-6: batch tensor advanced in place and parameters changed in place between applications of the same composite; first result held across later applications; in-place edit of a result does not leak; numpy int64/int32/float32 and Fraction operands either refused or evaluated as that number; float32 (integer-batch) tolerance relative to the sum of term magnitudes.')
RULE_EXT += ' Round 10 (after an exception / long time axis): chained sums of 13-24 levels through the left operand starting from a scalar, 0 or an expression; composites containing a user observable that raises in one evaluation (caught) and are evaluated again.'
RULE = RULE + " " + RULE_EXT
ASSUMPTIONS = ["rtol 1e-12 (+1e-12 absolute); float scalars are 0 or >= 1e-3 in magnitude (no denormal-range products)", "numpy integer scalars are not Python ints and are not generated (the library documents int/float)"]

LEAVES = ["SigmaX", "SigmaY", "SigmaZ", "SigmaZabs", "SigmaXabs", "NI1", "NI2p", "SWAP0", "SWAP01"]   # several leaves share a name but differ in behaviour

num = st.one_of(
    st.integers(-4, 4).map(lambda v: {"num": v, "kind": "int"}),
    # scalars are exactly 0 or at least 1e-3 in magnitude: products of denormal-range scalars underflow in ANY float64 arithmetic
    st.floats(-3, 3, allow_nan=False, width=64).map(lambda v: {"num": 0.0 if abs(v) < 1e-3 else v, "kind": "float"}),
    st.floats(-3, 3, allow_nan=False, width=64).map(lambda v: {"num": 0.0 if abs(v) < 1e-3 else v, "kind": "npfloat"}),
    st.sampled_from([{"num": 0, "kind": "int"}, {"num": 0.0, "kind": "float"}, {"num": -1, "kind": "int"}]),
    st.sampled_from([1e-9, -2e-10, 5e-12, 3e-8, 1e9, -4e11]).map(lambda v: {"num": v, "kind": "float"}))       # tiny / huge (not denormal) coefficients

leaf = st.sampled_from(LEAVES).map(lambda n: {"leaf": n})


def extend(ch):
    return st.one_of(
        ch.map(lambda e: {"neg": e}),
        st.tuples(st.sampled_from(["+", "-"]), ch, ch).map(lambda t: {"op": t[0], "l": t[1], "r": t[2]}),
        st.tuples(st.sampled_from(["+", "-", "*"]), ch, num).map(lambda t: {"op": t[0], "l": t[1], "r": t[2]}),
        st.tuples(st.sampled_from(["+", "-", "*"]), num, ch).map(lambda t: {"op": t[0], "l": t[1], "r": t[2]}))


exprs = st.recursive(leaf, extend, max_leaves=8)


def depth(e):
    if "leaf" in e or "num" in e:
        return 1
    if "neg" in e:
        return 1 + depth(e["neg"])
    return 1 + max(depth(e["l"]), depth(e["r"]))


def has(e, pred):
    if pred(e):
        return True
    if "neg" in e:
        return has(e["neg"], pred)
    if "op" in e:
        return has(e["l"], pred) or has(e["r"], pred)
    return False


@st.composite
def cases(draw, tier):
    e = draw(exprs.filter(lambda x: "leaf" not in x)) if draw(st.integers(0, 9)) else draw(exprs)
    if draw(st.integers(0, 4)) == 0:
        # a '+' / '-' node whose two operands are DIFFERENT observables carrying the same name (SigmaZ and SigmaZ(absolute=True), two SWAP
        # regions), optionally under equal coefficients, attached to the drawn expression
        a_, b_ = draw(st.sampled_from([("SigmaZ", "SigmaZabs"), ("SigmaZabs", "SigmaZ"), ("SigmaX", "SigmaXabs"), ("SWAP0", "SWAP01"), ("SWAP01", "SWAP0")]))
        la, lb = {"leaf": a_}, {"leaf": b_}
        if draw(st.booleans()):
            co = draw(num)
            la, lb = {"op": "*", "l": co, "r": la}, {"op": "*", "l": co, "r": lb}
        pair = {"op": draw(st.sampled_from(["+", "+", "-"])), "l": la, "r": lb}
        e = pair if draw(st.booleans()) else {"op": draw(st.sampled_from(["+", "-"])), "l": e, "r": pair}
    if draw(st.integers(0, 7)) == 0:
        # long time axis: a long chained sum c + t1 + t2 - t3 ... (13 to 24 levels nested through the left operand), starting from a scalar,
        # from 0 (as the builtin sum does) or from the drawn expression
        start = draw(st.one_of(num, st.just({"num": 0, "kind": "int"}), st.just(e)))
        ch = {"op": draw(st.sampled_from(["+", "-"])), "l": start, "r": draw(leaf)}
        for _ in range(draw(st.integers(12, 23))):
            ch = {"op": draw(st.sampled_from(["+", "+", "-"])), "l": ch, "r": draw(st.one_of(leaf, leaf, num))}
        e = ch
    return {"expr": e, "type": draw(st.sampled_from(gen.TYPES)), "raising_leaf": draw(st.integers(0, 3)) == 0, "n": draw(st.integers(2, 4)), "seed": draw(st.integers(0, 2 ** 31 - 1)),
            "batch": draw(st.lists(st.integers(0, 15), min_size=2, max_size=6)), "long_batch": draw(st.integers(0, 3)) == 0}


def scalar(d):
    if d["kind"] == "int":
        return int(d["num"])
    if d["kind"] == "npfloat":
        return np.float64(d["num"])
    return float(d["num"])


def make_leaf(name):
    from qucumber.observables import NeighbourInteraction, SigmaX, SigmaY, SigmaZ, SWAP
    return {"SigmaX": lambda: SigmaX(), "SigmaY": lambda: SigmaY(), "SigmaZ": lambda: SigmaZ(), "SigmaZabs": lambda: SigmaZ(absolute=True),
            "SigmaXabs": lambda: SigmaX(absolute=True), "SWAP01": lambda: SWAP([0, 1]), "NI1": lambda: NeighbourInteraction(c=1), "NI2p": lambda: NeighbourInteraction(periodic_bcs=True, c=2), "SWAP0": lambda: SWAP([0])}[name]()


def build(e, made=None):
    """Build through the operator overloads; every intermediate observable object is recorded in `made` together with
    its own subtree, so that after the whole expression exists each operand can be re-evaluated (building a parent must
    not change its children)."""
    if "leaf" in e:
        o = make_leaf(e["leaf"])
    elif "num" in e:
        return scalar(e)
    elif "neg" in e:
        o = -build(e["neg"], made)
    else:
        l, r = build(e["l"], made), build(e["r"], made)
        o = l + r if e["op"] == "+" else l - r if e["op"] == "-" else l * r
    if made is not None:
        made.append((e, o))
    return o


def interp(e, state, samples):
    if "leaf" in e:
        return make_leaf(e["leaf"]).apply(state, samples.clone()).double()
    if "num" in e:
        return float(e["num"])
    if "neg" in e:
        return -interp(e["neg"], state, samples)
    l, r = interp(e["l"], state, samples), interp(e["r"], state, samples)
    return l + r if e["op"] == "+" else l - r if e["op"] == "-" else l * r


def interp_on(e, state, samples):
    """interpreter that keeps the batch's dtype (leaves see exactly the tensor the composite was given)"""
    if "leaf" in e:
        return make_leaf(e["leaf"]).apply(state, samples.clone()).double()
    if "num" in e:
        return float(e["num"])
    if "neg" in e:
        return -interp_on(e["neg"], state, samples)
    l, r = interp_on(e["l"], state, samples), interp_on(e["r"], state, samples)
    return l + r if e["op"] == "+" else l - r if e["op"] == "-" else l * r


def magnitude(e, state, samples):
    """sum of the magnitudes of all terms of the expression (what a rounding error of the working precision is relative to)"""
    if "leaf" in e:
        return make_leaf(e["leaf"]).apply(state, samples.clone()).double().abs()
    if "num" in e:
        return abs(float(e["num"]))
    if "neg" in e:
        return magnitude(e["neg"], state, samples)
    l, r = magnitude(e["l"], state, samples), magnitude(e["r"], state, samples)
    return l * r if e["op"] == "*" else l + r


def make_state(c):
    import qucumber
    from qucumber.nn_states import ComplexWaveFunction, DensityMatrix, PositiveWaveFunction
    n = c["n"]
    qucumber.set_random_seed(c["seed"], cpu=True, gpu=False, quiet=True)
    s = {"positive": lambda: PositiveWaveFunction(n, 2, gpu=False), "complex": lambda: ComplexWaveFunction(n, 2, gpu=False),
         "density": lambda: DensityMatrix(n, 2, 2, gpu=False)}[c["type"]]()
    for net in s.networks:
        for p in getattr(s, net).parameters():
            p.data.copy_(torch.randn_like(p))
    return s


def check(c):
    from qucumber.observables import ObservableBase
    e = c["expr"]
    state = make_state(c)
    n = c["n"]
    samples = R.rows_from_indices([k % (2 ** n) for k in c["batch"]], n)
    made = []
    obs = build(e, made)
    require(isinstance(obs, ObservableBase), "build:type", f"expression built a {type(obs).__name__}, not an observable")
    # re-use of operands: extend two intermediate objects again AFTER the tree exists, then re-evaluate every operand
    extra = []
    for sub_e, sub_o in made[:-1][:3]:
        extra.append(sub_o + 2.5)
        extra.append(0.5 * sub_o)
        extra.append(sub_o - 1)
    for sub_e, sub_o in made[:-1] + made[:-1]:          # two passes: an operand evaluated again AFTER its parents have been evaluated
        w = interp(sub_e, state, samples)
        g = sub_o.apply(state, samples.clone()).double()
        require(bool(torch.all((g - w).abs() <= 1e-12 * w.abs() + 1e-12 * min(1.0, float(w.abs().max()) + 1e-30))), "operand-changed-by-composition",
                "an observable that was used as an operand no longer evaluates to its own expression after a larger expression was built from it",
                operand=str(sub_o), got=g.tolist(), want=w.tolist())
    require(isinstance(obs.name, str) and isinstance(obs.symbol, str) and isinstance(str(obs), str) and isinstance(repr(obs), str), "name/symbol", "name/symbol of a composite must be strings")
    keep = samples.clone()
    got = obs.apply(state, samples)
    require(torch.equal(samples, keep), "mutated", "composite.apply modified the batch")
    got_keep = got.detach().clone() if isinstance(got, torch.Tensor) else None
    want = interp(e, state, samples)
    require(isinstance(got, torch.Tensor) and tuple(got.shape) == (len(c["batch"]),), "apply:shape", f"composite.apply returned {type(got).__name__} of shape {getattr(got, 'shape', None)}")
    require(bool(torch.all((got.double() - want).abs() <= 1e-12 * want.abs() + 1e-12 * min(1.0, float(want.abs().max()) + 1e-30))), "apply:value",
            "composite.apply differs from the same arithmetic applied to the per-sample values of its leaves", got=got.tolist(), want=want.tolist(), symbol=str(obs))
    leaves = set()
    has(e, lambda x: leaves.add(x["leaf"]) if "leaf" in x else False)
    if c.get("long_batch") and c["type"] != "density" and leaves <= {"SigmaX", "SigmaY", "SigmaXabs", "NI1", "NI2p"}:
        # these leaves accept integer sample tensors on wavefunction states; the composite must then still be the same arithmetic
        sl = samples.long()
        gl = obs.apply(state, sl.clone()).double()
        wl = interp_on(e, state, sl)
        # integer batches make torch promote leaf values to float32 (long * 2.0 -> float32): single-precision tolerance here
        mg = magnitude(e, state, sl) + torch.zeros_like(wl)        # single-precision rounding is relative to the terms, not to a result that cancels
        require(bool(torch.all((gl - wl).abs() <= 1e-5 * mg + 1e-5)), "apply:value:integer-samples",
                "on an integer-dtype batch the composite differs from the same arithmetic applied to its leaves' values", got=gl.tolist(), want=wl.tolist(), symbol=str(obs))
    st_ = obs.statistics_from_samples(state, samples.clone())
    w = want.numpy()
    mean, var = float(np.mean(w)), float(np.var(w, ddof=1))
    sc = float(np.abs(w).max()) + 1e-300
    require(abs(st_["mean"] - mean) <= 1e-9 * abs(mean) + 1e-12 * sc and abs(st_["variance"] - var) <= 1e-9 * var + 1e-12 * sc * sc and
            abs(st_["std_error"] - math.sqrt(var / len(w))) <= 1e-9 * math.sqrt(var / len(w)) + 1e-12 * sc and st_["num_samples"] == len(w),
            "statistics", "statistics_from_samples of the composite are not those of the combined per-sample values", got={k: st_[k] for k in st_}, mean=mean, var=var)
    # history on the same objects: the batch tensor is advanced IN PLACE (as the chain-based statistics routines do with their chains) and
    # then the state's parameters are changed in place; the composite must follow both
    samples.copy_(1 - samples)
    for step in ("batch advanced in place", "parameters changed in place"):
        if step.startswith("parameters"):
            for p_ in state.rbm_am.parameters():
                p_.data.mul_(0.5)
        g2 = obs.apply(state, samples).double()
        w2 = interp(e, state, samples)
        require(bool(torch.all((g2 - w2).abs() <= 1e-12 * w2.abs() + 1e-12 * min(1.0, float(w2.abs().max()) + 1e-30))), "apply:value:after-inplace-change",
                f"composite.apply on the same tensor object after the {step} is not the arithmetic on the leaves' current values", got=g2.tolist(), want=w2.tolist(), symbol=str(obs))
    # the tensor returned by the FIRST application is still held: the later applications of the same composite (same batch size) must not
    # have changed it, and editing a result in place must not leak into the next application
    require(torch.equal(got, got_keep), "apply:earlier-result-changed", "the tensor returned by an earlier composite.apply changed when the composite was applied again", symbol=str(obs))
    g3 = obs.apply(state, samples)
    g3_keep = g3.detach().clone()
    g3.add_(1.0)
    g4 = obs.apply(state, samples)
    require(torch.equal(g4, g3_keep), "apply:result-edit-leaks", "editing the tensor returned by composite.apply in place changed the next application", symbol=str(obs))
    if c.get("raising_leaf"):
        # after an exception: a composite one of whose leaves (a user observable) raises in one evaluation; the caller catches it, and the
        # next evaluations of the same composite objects are the arithmetic on the leaves' values again
        class Moody(ObservableBase):
            def __init__(self):
                self.name, self.symbol, self.fail = "Moody", "M", False

            def apply(self, nn_state, samples):
                if self.fail:
                    raise RuntimeError("user observable refuses this batch")
                return samples.to(dtype=torch.double).sum(1) - 0.75

        moody = Moody()
        comps = [(obs + moody, 1.0, 1.0), (moody - obs, -1.0, 1.0), (0.5 * (obs - moody) + obs, 1.5, -0.5)]
        for trial in range(2):
            moody.fail = True
            for comp, _, _ in comps:
                try:
                    comp.apply(state, samples.clone())
                    fail("raising-leaf:swallowed", "a composite swallowed the exception raised by one of its leaves")
                except RuntimeError:
                    pass
            moody.fail = False
            w0 = interp(e, state, samples)
            wm = samples.double().sum(1) - 0.75
            for comp, a_, b_ in comps:
                gc_ = comp.apply(state, samples.clone()).double()
                wc_ = a_ * w0 + b_ * wm
                mg_ = magnitude(e, state, samples) * abs(a_) + wm.abs()
                require(bool(torch.all((gc_ - wc_).abs() <= 1e-12 * mg_ + 1e-12)), "apply:value:after-raising-leaf",
                        "a composite evaluated after an earlier evaluation of it was aborted by an exception from one of its leaves (caught) is not the "
                        "arithmetic on the leaves' values", got=gc_.tolist(), want=wc_.tolist(), symbol=str(comp))
        g5 = obs.apply(state, samples.clone()).double()
        require(bool(torch.all((g5 - w0).abs() <= 1e-12 * w0.abs() + 1e-12 * min(1.0, float(w0.abs().max()) + 1e-30))), "apply:value:after-raising-leaf",
                "the expression evaluated after composites built from it were aborted by an exception is not the arithmetic on its leaves", symbol=str(obs))
    refl = has(e, lambda x: "op" in x and "num" in x["l"] and x["op"] in "-*")
    sub_ = has(e, lambda x: x.get("op") == "-")
    return {"nontrivial": depth(e) >= 3 and refl and sub_, "labels": [f"depth={min(depth(e), 6)}", "type=" + c["type"]] + (["reflected"] if refl else [])}


@st.composite
def bad_builds(draw, tier):
    return {"kind": draw(st.sampled_from(["obs*obs", "str", "none", "list", "tensor", "dict", "np.int64", "np.int32", "np.float32", "fraction"])), "op": draw(st.sampled_from(["+", "-", "*"])),
            "side": draw(st.sampled_from(["left", "right"])), "l": draw(exprs), "r": draw(exprs)}


def check_bad(c):
    a = build(c["l"])
    if c["kind"] == "obs*obs":
        b = build(c["r"])
        expect_raises(ValueError, lambda: a * b, "build:obs*obs-accepted", "observable * observable")
        return {}
    if c["kind"] in ("np.int64", "np.int32", "np.float32", "fraction"):
        # real numbers that are not Python int/float: the library may refuse them (TypeError at build time) - but if it accepts one, the
        # composite must be the arithmetic with that number (never a silently dropped operand)
        import fractions
        val = {"np.int64": np.int64(3), "np.int32": np.int32(-2), "np.float32": np.float32(0.5), "fraction": fractions.Fraction(3, 4)}[c["kind"]]
        try:
            comp = a + val if c["op"] == "+" else a - val if c["op"] == "-" else a * val
        except TypeError:
            return {"labels": ["numeric-nonbuiltin:refused"]}
        st_ = make_state({"n": 3, "seed": 1, "type": "positive"})
        smp = R.rows_from_indices([0, 5, 3, 6, 7], 3)
        leafv = interp(c["l"], st_, smp)
        want = leafv + float(val) if c["op"] == "+" else leafv - float(val) if c["op"] == "-" else leafv * float(val)
        got = comp.apply(st_, smp).double()
        require(bool(torch.all((got - want).abs() <= 1e-6 * (1 + want.abs()))), "build:non-builtin-number-accepted-but-wrong",
                f"observable {c['op']} {type(val).__name__} was accepted but does not evaluate to the arithmetic with that number", got=got.tolist(), want=want.tolist())
        return {"labels": ["numeric-nonbuiltin:accepted"]}
    other = {"str": "2", "none": None, "list": [1.0], "tensor": torch.tensor(2.0), "dict": {"a": 1}}[c["kind"]]
    def go():
        x, y = (other, a) if c["side"] == "left" else (a, other)
        return x + y if c["op"] == "+" else x - y if c["op"] == "-" else x * y
    if c["kind"] == "tensor" and c["side"] == "left":
        # tensor.__add__(obs) is torch's business (it may raise its own TypeError before the library is consulted)
        try:
            go()
        except (TypeError, ValueError, RuntimeError):
            return {}
        raise AssertionError("unexpected: torch accepted tensor <op> observable")
    expect_raises(TypeError, go, "build:non-numeric-accepted", f"{c['kind']} operand ({c['side']}) with {c['op']}")
    return {}


SUBCHECKS = [
    Sub("expressions", check, strategy=lambda tier: cases(tier), quick=1600, thorough=40000),
    Sub("rejections", check_bad, strategy=lambda tier: bad_builds(tier), quick=200, thorough=2000),
]
