"""C07 - Every epoch uses every training sample once, paired with its own basis."""
import copy
from collections import Counter

import numpy as np
import torch
from hypothesis import strategies as st

from vf import gen, refmodel as R
from vf.common import Sub, require

PROPERTY = "C07"
RULE = ("Generated training runs: n 2..5, N 1..12 rows (duplicates forced with prob 1/2), pos_batch_size 1..N+2 (so N<B, N=mB, "
        "N=mB+r all occur), neg_batch_size None/1..6, epochs 1..3, with bases (complex/density; >= 1 all-Z row, the library's "
        "precondition) or without (positive), data passed as torch tensor / numpy array / nested list, drawn torch seed. "
        "compute_batch_gradients is wrapped on the instance and records every (positive batch, negative batch, bases batch). "
        "Oracle (history invariant per epoch): multiset of (row, basis-row) pairs over the positive batches == multiset of the "
        "input pairs; batch sizes B..B,r with ceil(N/B) batches; negative rows come from the admissible rows (all-Z rows when "
        "bases are given) with the requested size; caller's data/bases bit-identical afterwards and not aliased. Non-trivial = "
        "N = mB + r with r>0 and m>=1, >= 2 epochs, and (with bases) >= 2 distinct basis strings.")
RULE_EXT = ('Extended as built: N 101-260 and 1025-1200, default batch sizes by omission, numpy integer sizes, data as float32 / int64 / list containers, the all-Z row placed last.')
RULE_EXT += ' Round 10 (after an exception / long time axis): a fit() on OTHER data aborted by an exception before the verified run; runs of 33-40 epochs.'
RULE_EXT += ' Round 11 (re-entrant use / feature interactions): a busy callback (evaluation, gradients, sampling, statistics, a fit of another state from inside every hook) in 1 run of 4.'
RULE = RULE + " " + RULE_EXT
ASSUMPTIONS = ["bases passed as numpy arrays of single-character strings (the documented type)",
               "for n > 3 with bases the wrapper returns zero gradients instead of calling the real gradient code (labelled 'stub_grad')",
               "tail negative batch of the shared-permutation configuration (no bases, equal sizes) may have r rows"]


# (N, B) with N an exact multiple of B for which N * (1.0 / B) rounds just below the integer N / B: batch counts must come from integer
# arithmetic (or a correctly rounded division), not from a multiplication by a rounded reciprocal
RECIPROCAL_PITFALLS = [(m * B, B) for B in range(2, 401) for m in range(1, 8) if int((m * B) * (1.0 / B)) != m and m * B <= 400]


@st.composite
def runs(draw, tier):
    with_bases = draw(st.booleans())
    t = draw(st.sampled_from(["complex", "density"])) if with_bases else "positive"
    n = draw(st.integers(2, 5 if t != "density" else 4))
    big = draw(st.integers(0, 24)) == 0
    N = (draw(st.integers(101, 260)) if draw(st.booleans()) else draw(st.integers(1025, 1200))) if big else draw(st.integers(1, 12))     # big: more rows than the default batch size of 100 / than 1024
    pitfall = None
    if not big and draw(st.integers(0, 24)) == 0:
        pitfall = draw(st.sampled_from(RECIPROCAL_PITFALLS))
        N = pitfall[0]
    idx = draw(st.lists(st.integers(0, 2 ** n - 1), min_size=N, max_size=N))
    if N >= 2 and draw(st.booleans()):
        j = draw(st.integers(1, N - 1))
        idx[j] = idx[0]                      # forced duplicate row
    if pitfall:
        pbs, ep = pitfall[1], draw(st.integers(1, 2))
    elif big:
        pbs, ep = draw(st.sampled_from([None, None, 64, 100, 128, 500])), draw(st.integers(1, 3))     # None = the library's default (100)
    elif N >= 3 and draw(st.integers(0, 2)) > 0:     # construct the tail-batch class (N = mB + r) instead of hoping for it
        pbs = draw(st.sampled_from([b for b in range(2, N) if N % b] or [N + 1]))
        ep = draw(st.integers(2, 3))
    else:
        pbs, ep = draw(st.integers(1, N + 2)), draw(st.integers(1, 3))
    c = {"type": t, "n": n, "idx": idx, "pbs": pbs, "nbs": draw(st.one_of(st.none(), st.integers(1, 6))),
         "epochs": ep, "form": draw(st.sampled_from(["tensor", "ndarray", "list", "int_ndarray", "float32_tensor", "long_tensor", "tuple", "float32_ndarray"])),
         "torch_seed": draw(st.integers(0, 2 ** 31 - 1)), "k": draw(st.integers(0, 2)), "np_sizes": draw(st.integers(0, 3)) == 0,
         "interrupted_first": draw(st.integers(0, 3)) == 0,
         "aborted_first": draw(st.sampled_from([None, None, None, "on_batch_end", "on_epoch_end", "on_epoch_start"]))}
    if not big and not pitfall and N <= 4 and draw(st.integers(0, 9)) == 0:
        c["epochs"] = draw(st.integers(33, 40))            # a long run on a tiny data set (time axis: more than 32 epochs)
    if with_bases:
        kind = draw(st.sampled_from(["mixed", "mixed", "mixed", "all_reference", "one_letter_per_row"]))
        if kind == "all_reference":
            bs = ["Z" * n] * N                                   # every row measured in the reference basis
        elif kind == "one_letter_per_row":
            bs = [draw(st.sampled_from("XYZ")) * n for _ in range(N)]    # global bases XX.. / YY.. / ZZ..
        else:
            bs = [draw(gen.basis_string(n)) if draw(st.booleans()) else "Z" * n for _ in range(N)]
        if N >= 3 and draw(st.booleans()):
            bs[1] = bs[2]                    # duplicate basis with (likely) different rows
        bs[draw(st.integers(0, N - 1))] = "Z" * n     # the library's precondition: at least one reference-basis row (forced last)
        c["bases"] = bs
    return c


def check(c):
    import qucumber
    from qucumber.callbacks import LambdaCallback
    from qucumber.nn_states import ComplexWaveFunction, DensityMatrix, PositiveWaveFunction
    n, N, t = c["n"], len(c["idx"]), c["type"]
    qucumber.set_random_seed(c["torch_seed"], cpu=True, gpu=False, quiet=True)
    state = {"positive": lambda: PositiveWaveFunction(n, 2, gpu=False), "complex": lambda: ComplexWaveFunction(n, 2, gpu=False),
             "density": lambda: DensityMatrix(n, 2, 2, gpu=False)}[t]()
    rows = [R.index_to_row(k, n) for k in c["idx"]]
    if c["form"] == "tensor":
        data = torch.tensor(rows, dtype=torch.double)
        keep = data.clone()
        unchanged = lambda: torch.equal(data, keep)
    elif c["form"] in ("float32_tensor", "long_tensor"):
        data = torch.tensor(rows, dtype=torch.float32 if c["form"] == "float32_tensor" else torch.long)
        keep = data.clone()
        unchanged = lambda: torch.equal(data, keep) and data.dtype == keep.dtype
    elif c["form"] == "tuple":
        data = tuple(tuple(int(x) for x in r) for r in rows)
        keep = copy.deepcopy(data)
        unchanged = lambda: data == keep
    elif c["form"] == "float32_ndarray":
        data = np.array(rows, dtype=np.float32)
        keep = data.copy()
        unchanged = lambda: np.array_equal(data, keep) and data.dtype == np.float32
    elif c["form"] == "ndarray":
        data = np.array(rows, dtype=np.float64)
        keep = data.copy()
        unchanged = lambda: np.array_equal(data, keep)
    elif c["form"] == "int_ndarray":
        data = np.array(rows, dtype=np.int64)
        keep = data.copy()
        unchanged = lambda: np.array_equal(data, keep) and data.dtype == np.int64
    else:
        data = [list(map(int, r)) for r in rows]
        keep = copy.deepcopy(data)
        unchanged = lambda: data == keep
    bases = None
    if "bases" in c:
        bases = np.array([list(b) for b in c["bases"]]).reshape(N, n)
        bkeep = bases.copy()
    log = []
    epochs = []
    stub = bases is not None and (n > 3 or N > 8)
    orig = state.compute_batch_gradients

    def cbg(k, samples_batch, neg_batch, *a, **kw):
        bb = a[0] if a else kw.get("bases_batch")
        log.append(dict(epoch=len(epochs), pos=samples_batch.clone(), neg=neg_batch.clone(), bases=None if bb is None else np.array(bb),
                        pos_ptr=samples_batch.untyped_storage().data_ptr(), neg_ptr=neg_batch.untyped_storage().data_ptr()))
        if stub:
            return [torch.zeros(getattr(state, net).num_pars, dtype=torch.double) for net in state.networks]
        return orig(k, samples_batch, neg_batch, *a, **kw)

    state.compute_batch_gradients = cbg
    guard, diverged = gen.divergence_guard()
    kw = dict(epochs=c["epochs"], neg_batch_size=c["nbs"], k=c["k"], lr=0.01,
              callbacks=[LambdaCallback(on_epoch_start=lambda s, e: epochs.append(e)), guard])
    if c["torch_seed"] % 4 == 0 and n <= 4 and c["epochs"] <= 4 and N <= 12:
        # re-entrant use: a further callback makes public calls (evaluation, gradients, sampling, statistics, a fit of ANOTHER state) from inside every hook
        kw["callbacks"] = [gen.busy_callback()] + kw["callbacks"] if c["torch_seed"] % 8 == 0 else kw["callbacks"] + [gen.busy_callback()]
    if bases is not None:
        kw["input_bases"] = bases
    if c.get("np_sizes"):
        kw["neg_batch_size"] = None if c["nbs"] is None else np.int64(c["nbs"])      # sizes computed with numpy
    if c["pbs"] is not None:
        kw["pos_batch_size"] = np.int64(c["pbs"]) if c.get("np_sizes") else c["pbs"]
    if c.get("aborted_first"):
        # an earlier run on the same state, on OTHER data (one row fewer or a flipped copy), was aborted by an exception from a user callback
        rows_o = [[1 - int(x) for x in r] for r in rows][: max(1, N - 1)]
        gen.abort_a_fit(state, torch.tensor(rows_o, dtype=torch.double), None if bases is None else np.array([["Z"] * n] * len(rows_o)), hook=c["aborted_first"], pos_batch_size=1)
        del log[:]
        del epochs[:]
    if c.get("interrupted_first") and N >= 2:
        # lifecycle: an earlier run on the same state was stopped inside an epoch (after its first batch); the request is withdrawn and the run
        # that is verified below starts afresh: every epoch uses every row once
        stopper = LambdaCallback(on_batch_end=lambda s_, e_, b_: setattr(s_, "stop_training", True))
        state.fit(data, **dict(kw, epochs=1, callbacks=[stopper], pos_batch_size=1))
        state.stop_training = False
        del log[:]
        del epochs[:]
    state.fit(data, **kw)

    if diverged[0]:
        return {"nontrivial": False, "excluded": 1, "labels": ["diverged"]}
    B = c["pbs"] if c["pbs"] is not None else 100      # documented default
    nb = -(-N // B)
    nbs = c["nbs"] or B
    shared = bases is None and nbs == B
    require(len(epochs) == c["epochs"], "epochs", f"{len(epochs)} epochs ran, {c['epochs']} requested")
    pairs_in = Counter((tuple(r), tuple(bases[i]) if bases is not None else None) for i, r in enumerate(rows))
    admissible = {tuple(r) for i, r in enumerate(rows) if bases is None or set(c["bases"][i]) == {"Z"}}
    for ep in range(1, c["epochs"] + 1):
        bl = [b for b in log if b["epoch"] == ep]
        require(len(bl) == nb, "batch-count", f"epoch #{ep}: {len(bl)} batches, expected ceil({N}/{B}) = {nb}")
        sizes = [int(b["pos"].shape[0]) for b in bl]
        want_sizes = [B] * (N // B) + ([N % B] if N % B else [])
        require(sizes == want_sizes, "batch-sizes", f"epoch #{ep}: positive batch sizes {sizes}, expected {want_sizes}")
        got = Counter()
        for b in bl:
            require(b["pos"].dim() == 2 and b["pos"].shape[1] == n, "batch-shape", f"positive batch of shape {tuple(b['pos'].shape)}")
            if bases is not None:
                require(b["bases"] is not None and b["bases"].shape == (b["pos"].shape[0], n), "bases-shape",
                        f"bases batch shape {None if b['bases'] is None else b['bases'].shape} does not match the positive batch {tuple(b['pos'].shape)}")
            else:
                require(b["bases"] is None, "bases-invented", "a bases batch was passed although no bases were supplied")
            for i in range(b["pos"].shape[0]):
                got[(tuple(int(x) for x in b["pos"][i].tolist()), tuple(b["bases"][i]) if bases is not None else None)] += 1
        require(got == pairs_in, "epoch-multiset", f"epoch #{ep}: the (sample, basis) pairs seen in the positive batches are not exactly the input pairs",
                missing=[str(k) for k in (pairs_in - got)][:5], extra=[str(k) for k in (got - pairs_in)][:5])
        for b in bl:
            ns = int(b["neg"].shape[0])
            ok_size = ns == nbs or (shared and ns == int(b["pos"].shape[0]))
            require(ok_size, "neg-size", f"negative batch has {ns} rows, requested {nbs}")
            for i in range(ns):
                r = tuple(int(x) for x in b["neg"][i].tolist())
                require(r in admissible, "neg-row-not-admissible",
                        "a negative-phase chain was started from a row that is not " + ("a reference-basis (all-Z) row of the data" if bases is not None else "a row of the data"), row=list(r))
    require(unchanged(), "data-mutated", "training modified the caller's data")
    if bases is not None:
        require(np.array_equal(bases, bkeep), "bases-mutated", "training modified the caller's bases")
    if isinstance(data, torch.Tensor):
        dp = data.untyped_storage().data_ptr()
        require(all(b["pos_ptr"] != dp and b["neg_ptr"] != dp for b in log), "data-aliased", "a batch aliases the caller's data tensor")
    if bases is not None and N >= 2 and not diverged[0]:
        # a second training run in which the caller re-uses the SAME bases array object, refilled in place (rows rotated by one, the data
        # rotated with them): the pairing and the admissible negative-phase rows are those of the array's current contents
        rows2 = rows[-1:] + rows[:-1]
        bases[:] = np.roll(bases, 1, axis=0)
        b2list = [tuple(x) for x in bases.tolist()]
        data2 = torch.tensor(rows2, dtype=torch.double)
        del log[:]
        del epochs[:]
        state.fit(data2, **dict(kw, epochs=1))
        if not diverged[0]:
            pairs2 = Counter((tuple(r), b2list[i]) for i, r in enumerate(rows2))
            adm2 = {tuple(r) for i, r in enumerate(rows2) if set(b2list[i]) == {"Z"}}
            got2 = Counter()
            for b in log:
                for i in range(b["pos"].shape[0]):
                    got2[(tuple(int(x) for x in b["pos"][i].tolist()), tuple(b["bases"][i]))] += 1
                for i in range(int(b["neg"].shape[0])):
                    r = tuple(int(x) for x in b["neg"][i].tolist())
                    require(r in adm2, "second-run:neg-row-not-admissible", "second run with the bases array refilled in place: a negative-phase chain was started from a row that is not a reference-basis row of the CURRENT data", row=list(r))
            require(got2 == pairs2, "second-run:epoch-multiset", "second run with the bases array refilled in place: the (sample, basis) pairs of the epoch are not the current input pairs")
    tail = N % B != 0 and N > B
    nt = tail and c["epochs"] >= 2 and (bases is None or len(set(c["bases"])) >= 2)
    return {"nontrivial": nt, "labels": [f"type={t}", f"form={c['form']}"] + (["N<B"] if N < B else ["N=mB"] if N % B == 0 else ["N=mB+r"]) +
            (["stub_grad"] if stub else []) + (["bases"] if bases is not None else []) + (["big(N>100)"] if N > 100 else []) + (["default_batch_size"] if c["pbs"] is None else []) + (["neg!=pos"] if nbs != B else []) +
            (["busy_callback"] if (c["torch_seed"] % 4 == 0 and n <= 4 and c["epochs"] <= 4 and N <= 12) else []) + (["more_than_32_epochs"] if c["epochs"] > 32 else [])}


SUBCHECKS = [Sub("epoch_batches", check, strategy=lambda tier: runs(tier), quick=640, thorough=12000)]
