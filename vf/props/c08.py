"""C08 - Observable estimators are unbiased for the operator they name."""
import torch
from hypothesis import strategies as st

from vf import gen, refmodel as R
from vf.common import Sub, require

PROPERTY = "C08"
RULE = ("Generated: three state types, n 1..5 (density 1..4), nh 1..4, na 1..3, parameters with per-tensor scales up to 30 (all "
        "biases drawn, non-trivial phases); per case EVERY built-in observable is evaluated: SigmaX/Y/Z (absolute False and True) "
        "and NeighbourInteraction(c, periodic) for every c in 1..n and both boundary conditions. Oracle: exact weighting (no "
        "sampling) sum_sigma p(sigma) O.apply(state, space)[sigma] == tr(rho_hat O_hat) with rho_hat the normalised REFERENCE state "
        "(enumerated hidden/aux units) and O_hat a dense Kronecker-product operator (Pauli X, Pauli Y=[[0,-i],[i,0]], Z with the "
        "library's documented spin convention outcome 0 -> -1, 1 -> +1). Non-trivial = all biases non-zero and, for complex/"
        "density states, |<Y>| > 1e-6.")
RULE_EXT = ('Extended as built: the same observable object is applied three times (results must agree), batches of up to 25003 rows (row i must equal the value of its basis state), n up to 8 for pure states. Round 6: signed -> absolute -> signed evaluations of the same batch back to back by objects of the same class.')
RULE_EXT += ' Round 10 (after an exception / long time axis): the same configurations first handed over as float32 / int64 (refused or not), then converted to double and evaluated; 60 further applications of one observable object on one batch.'
RULE = RULE + " " + RULE_EXT
ASSUMPTIONS = ["Z / ZZ use the library's own to_pm1 convention (0 -> -1); asserting the textbook |0> -> +1 would demand what the code never claims",
               "absolute tolerance 1e-7 on expectation values (all are O(1))"]


@st.composite
def cases(draw, tier):
    t = draw(st.sampled_from(gen.TYPES))
    if draw(st.integers(0, 15)) == 0:
        sc = draw(gen.state_case(types=[t], n=(5, 6) if t == "density" else (6, 8), nh=(1, 6), na=(1, 3), scales=[0.05, 0.5, 2.0], bound=100.0))   # beyond the box
        sc["large"] = True
    else:
        sc = draw(gen.state_case(types=[t], n=(1, 4 if t == "density" else 5), nh=(1, 4), na=(1, 3), bound=100.0))
    c = {"state": sc, "idx": draw(gen.index_list(sc["n"], 1, 5))}
    if draw(st.integers(0, 24)) == 0:
        c["big_rows"] = draw(st.sampled_from([300, 1030, 10056, 25003]))     # rows of a large batch: the indices cycle through the drawn idx pattern
    return c


def dense_ops(n):
    X, Y, Z = R.PAULI["X"], R.PAULI["Y"], R.PAULI["Zlib"]
    ops = {"X": sum(R.site_op(X, j, n) for j in range(n)) / n,
           "Y": sum(R.site_op(Y, j, n) for j in range(n)) / n,
           "Z": sum(R.site_op(Z, j, n) for j in range(n)) / n}
    zz = lambda i, j: R.site_op(Z, i, n) @ R.site_op(Z, j, n)
    for c in range(1, n + 1):
        ops[("NI", c, True)] = sum(zz(i, (i + c) % n) for i in range(n)) / n
        terms = [zz(i, i + c) for i in range(n - c)]
        ops[("NI", c, False)] = (sum(terms) / n) if terms else torch.zeros(2 ** n, 2 ** n, dtype=R.C128)
    return ops


def check(case):
    from qucumber.observables import NeighbourInteraction, SigmaX, SigmaY, SigmaZ
    sc = case["state"]
    n = sc["n"]
    state = gen.build_state(sc)
    am, ph = gen.ref_nets(sc)
    V = R.bits(n)
    space = state.generate_hilbert_space()
    p = (state.probability(space) / state.normalization(space)).double()
    if sc["type"] == "density":
        rho = R.rho_ref(am, ph, V)
    else:
        psi = R.psi_ref(am, ph, V)
        rho = psi[:, None] * psi.conj()[None, :]
    rho = rho / rho.diagonal().real.sum()
    # precision tier (see c01.py): product-form reference following the library's documented arithmetic; the estimators of a mixed state
    # divide by probability(sigma), whose normalisation sums the auxiliary units in product form as well
    with R.library_precision():
        if sc["type"] == "density":
            rho_prec = R.rho_ref(am, ph, V)
            den_prec = torch.exp(R.log_prob_visible(am, V))            # what probability() reports: the weight of the diagonal terms
            rho_prec = (rho_prec - torch.diag(rho_prec.diagonal()) + torch.diag(den_prec.to(R.C128))) / den_prec.sum()
        else:
            psi_p = R.psi_ref(am, ph, V)
            rho_prec = psi_p[:, None] * psi_p.conj()[None, :]
            rho_prec = rho_prec / rho_prec.diagonal().real.sum()
    prec_abs = 1e-11 + (1e-14 / max(gen.min_aux_factor(sc), 1e-12) if sc["type"] == "density" else 0.0)      # see c02.py
    ops = dense_ops(n)
    # magnitude of the terms a local estimator sums for basis state v: sum_j |rho(v^j, v)| / rho(v, v) / n (v^j = v with site j flipped).  Two
    # evaluations of the same estimator on differently composed batches may round differently by eps * this magnitude (the terms can exceed
    # the estimator's value by many orders of magnitude when amplitude ratios are huge and the phases nearly cancel)
    ar = rho_prec.abs()
    flips = [[R.row_to_index([b ^ (1 if jj == j else 0) for jj, b in enumerate(R.index_to_row(i, n))]) for j in range(n)] for i in range(2 ** n)]
    term_mag = torch.tensor([sum(float(ar[f, i]) for f in flips[i]) / (n * float(ar[i, i]) + 1e-300) for i in range(2 ** n)], dtype=torch.double)
    obs = [("X", lambda a: SigmaX(absolute=a)), ("Y", lambda a: SigmaY(absolute=a)), ("Z", lambda a: SigmaZ(absolute=a))]
    ey = None
    idx = case["idx"]
    if case.get("big_rows"):
        base = case["idx"]
        idx = [(base[i % len(base)] + i * (1 + i // 7)) % (2 ** n) for i in range(case["big_rows"])]
    for key, mk in obs:
        keep = space.clone()
        shared = mk(False)
        vals = shared.apply(state, space)
        require(torch.equal(space, keep), f"mutated:{key}", f"Sigma{key}.apply modified the sample array")
        require(isinstance(vals, torch.Tensor) and tuple(vals.shape) == (2 ** n,) and not vals.is_complex() and vals.dtype.is_floating_point,
                f"shape:{key}", f"Sigma{key}.apply must return one real number per sample, got shape {tuple(vals.shape)}")
        est = float((p * vals.double()).sum())
        ref = torch.trace(rho @ ops[key])
        require(abs(est - float(ref.real)) <= 1e-7, f"biased:Sigma{key}",
                f"exact average of Sigma{key} per-sample values = {est:.10f}, but tr(rho {key}) = {float(ref.real):.10f}", imag=float(ref.imag))
        ref_p = float(torch.trace(rho_prec @ ops[key]).real)
        require(abs(est - ref_p) <= prec_abs, f"precision:Sigma{key}", f"exact average of Sigma{key} per-sample values is not accurate to double precision: {est!r} vs tr(rho {key}) = {ref_p!r}")
        if key == "Y":
            ey = float(ref.real)
        av = mk(True).apply(state, space.clone())
        require(bool(torch.all((av.double() - vals.double().abs()).abs() <= 1e-12 * (1 + vals.double().abs()))), f"absolute:{key}",
                f"Sigma{key}(absolute=True) is not the pointwise |.| of the signed per-sample values")
        sub = shared.apply(state, space[idx].clone())                      # the same observable object: second use
        third = shared.apply(state, space.clone())                         # ... and third use, on the full space again
        require(bool(torch.all((third.double() - vals.double()).abs() <= 1e-12 * (1 + vals.double().abs()))), f"reuse:{key}",
                f"the third application of the same Sigma{key} object differs from its first")
        require(tuple(sub.shape) == (len(idx),) and bool(torch.all((sub.double() - vals.double()[idx]).abs() <= 1e-9 * (1 + vals.double()[idx].abs()) + 1e-12 * term_mag[idx])),
                f"pointwise:{key}", f"Sigma{key}.apply on a sub-batch differs from the rows of the full evaluation")
        # the caller's sample buffer filled in place with other configurations between two calls (e.g. chains advanced in place)
        buf = space.clone()
        shared.apply(state, buf)
        buf.copy_(space.flip(0))
        vb = shared.apply(state, buf).double()
        require(bool(torch.all((vb - vals.double().flip(0)).abs() <= 1e-12 * (1 + vals.double().abs().flip(0)) + 1e-12 * term_mag.flip(0))), f"buffer-refilled-in-place:{key}",
                f"Sigma{key}.apply on a sample tensor that was refilled in place does not follow the tensor's current contents")
        # the same configurations handed over as a column-major (non-contiguous) view, e.g. the transpose of a (sites x samples) table:
        # the logical element order is what counts (seeded change C08w)
        cm = space.t().contiguous().t()
        vcm = shared.apply(state, cm).double()
        require(torch.equal(cm, space), f"mutated(column-major):{key}", f"Sigma{key}.apply modified a column-major sample array")
        require(tuple(vcm.shape) == (2 ** n,) and bool(torch.all((vcm - vals.double()).abs() <= 1e-12 * (1 + vals.double().abs()) + 1e-12 * term_mag)),
                f"column-major-samples:{key}", f"Sigma{key}.apply on a column-major view of the same configurations differs from the row-major evaluation")
        # after an exception: the same configurations handed over in another dtype (single precision, integers) - accepted or refused with
        # an exception that the caller catches; the caller then converts the SAME array to double and evaluates again
        for other_dtype in (torch.float32, torch.long):
            bad = space.to(other_dtype)
            try:
                shared.apply(state, bad)
            except Exception:
                pass
            again = shared.apply(state, bad.double()).double()
            require(bool(torch.all((again - vals.double()).abs() <= 1e-12 * (1 + vals.double().abs()) + 1e-12 * term_mag)), f"after-refused-dtype:{key}",
                    f"Sigma{key}: an array first handed over as {other_dtype} (refused or not), then converted to double and evaluated, does not give the values of its configurations")
        if sum(case["idx"]) % 3 == 0 and not case.get("big_rows"):
            # long time axis: the same observable object evaluated 60 more times on the same batch
            for rep in range(60):
                last = shared.apply(state, space[idx].clone())
                if True:
                    require(bool(torch.all((last.double() - sub.double()).abs() <= 1e-12 * (1 + sub.double().abs()) + 1e-12 * term_mag[idx])), f"long-history:{key}",
                            f"application #{rep + 4} of the same Sigma{key} object on the same batch differs from its earlier applications")
        # signed -> absolute -> signed on the SAME batch, back to back (no other batch in between), by two objects of the same class
        av2 = mk(True).apply(state, space.clone())
        fourth = shared.apply(state, space.clone())
        fifth = mk(False).apply(state, space.clone())
        require(bool(torch.all((av2.double() - vals.double().abs()).abs() <= 1e-12 * (1 + vals.double().abs()))) and
                bool(torch.all((fourth.double() - vals.double()).abs() <= 1e-12 * (1 + vals.double().abs()))) and
                bool(torch.all((fifth.double() - vals.double()).abs() <= 1e-12 * (1 + vals.double().abs()))), f"reuse:{key}:signed-absolute-signed",
                f"Sigma{key}: a signed evaluation right after an absolute=True evaluation of the same batch differs from the first signed evaluation")
    for c in range(1, n + 1):
        for pbc in (False, True):
            keep = space.clone()
            vals = NeighbourInteraction(periodic_bcs=pbc, c=c).apply(state, space)
            if case.get("big_rows") and c == 1:
                subv = NeighbourInteraction(periodic_bcs=pbc, c=c).apply(state, space[idx].clone())
                require(tuple(subv.shape) == (len(idx),) and bool(torch.all((subv.double() - vals.double()[idx]).abs() <= 1e-9)), "pointwise:NI", "NeighbourInteraction on a large batch differs from the rows of the full evaluation")
            require(torch.equal(space, keep), "mutated:NI", "NeighbourInteraction.apply modified the sample array")
            require(tuple(vals.shape) == (2 ** n,), "shape:NI", f"NeighbourInteraction.apply returned shape {tuple(vals.shape)}")
            est = float((p * vals.double()).sum())
            ref = float(torch.trace(rho @ ops[("NI", c, pbc)]).real)
            ref_p = float(torch.trace(rho_prec @ ops[("NI", c, pbc)]).real)
            require(abs(est - ref_p) <= prec_abs, "precision:NeighbourInteraction", f"NeighbourInteraction(c={c}, periodic={pbc}) average is not accurate to double precision: {est!r} vs {ref_p!r}")
            require(abs(est - ref) <= 1e-7, f"biased:NeighbourInteraction(pbc={pbc})",
                    f"NeighbourInteraction(c={c}, periodic={pbc}) averages to {est:.10f}, operator expectation is {ref:.10f} (n={n})")
    nt = gen.all_biases_nonzero(sc) and (sc["type"] == "positive" or abs(ey) > 1e-6)
    return {"nontrivial": nt, "labels": gen.arch_label(sc)}


SUBCHECKS = [Sub("unbiased", check, strategy=lambda tier: cases(tier), quick=800, thorough=15000)]
