"""Brute-force reference model, independent of the library's formulas.

Everything in torch float64 / complex128 so autograd can differentiate it.  Hidden and auxiliary units are
summed over explicitly (no softplus, no analytic trace), rotations are dense Kronecker products.

Parameter containers: a network is a dict of float64 tensors
   binary:        W (nh,n)  b (n)  c (nh)
   purification:  W (nh,n)  U (na,n)  b (n)  c (nh)  d (na)
Index convention: basis state k <-> n-bit big-endian expansion of k (site 0 = most significant bit).
"""
import itertools

import numpy as np
import torch

F64 = torch.float64
C128 = torch.complex128


def bits(n):
    if n == 0:
        return torch.zeros(1, 0, dtype=F64)
    return torch.tensor(list(itertools.product([0.0, 1.0], repeat=n)), dtype=F64).reshape(2 ** n, n)


def index_to_row(k, n):
    return [(k >> (n - 1 - j)) & 1 for j in range(n)]


def rows_from_indices(idx, n):
    return torch.tensor([index_to_row(int(k), n) for k in idx], dtype=F64).reshape(len(idx), n)


def row_to_index(row):
    k = 0
    for x in row:
        k = 2 * k + int(round(float(x)))
    return k


def net_from_case(d):
    """dict of nested lists -> dict of float64 tensors (leaf tensors, no grad)."""
    out = {k: torch.tensor(v, dtype=F64) for k, v in d.items()}
    n = out["b"].shape[0]
    for k in ("W", "U"):           # an empty layer (size 0) is a (0, n) matrix, which a nested list cannot express
        if k in out and out[k].numel() == 0:
            out[k] = out[k].reshape(0, n)
    return out


def with_grad(net):
    return {k: v.clone().requires_grad_(True) for k, v in net.items()}


def log_marg(net, V):
    """log sum_h exp(b.v + c.h + h^T W v)  by explicit enumeration of the 2^nh hidden configurations.
    Inside `with library_precision():` the same quantity is evaluated in its product form b.v + sum_j softplus(c_j + W_j.v) with
    torch's own softplus (identity above its documented threshold 20): mathematically the same number, but it reproduces the
    e^-20-per-hidden-unit deviation of the library's documented arithmetic, so comparisons can then be made to ~1e-12 (precision tier)."""
    W, b, c = net["W"], net["b"], net["c"]
    if _MODE["softplus"]:
        return V @ b + _LibSoftplus.apply(V @ W.t() + c[None, :]).sum(1)
    H = bits(W.shape[0])
    e = (V @ b)[:, None] + (H @ c)[None, :] + (V @ W.t()) @ H.t()
    return torch.logsumexp(e, dim=1)


_MODE = {"softplus": False}


class _LibSoftplus(torch.autograd.Function):
    """value: torch's softplus (identity above its threshold 20), as the library evaluates energies; derivative: the exact sigmoid,
    as the library's hand-written gradients use - so autograd through the product-form reference follows the library's documented
    arithmetic in both the value and the gradient"""
    @staticmethod
    def forward(ctx, x):
        ctx.save_for_backward(x)
        return torch.nn.functional.softplus(x)

    @staticmethod
    def backward(ctx, g):
        (x,) = ctx.saved_tensors
        return g * torch.sigmoid(x)


class library_precision:
    """context manager: evaluate hidden-unit marginals in product form with torch's softplus (see log_marg)"""
    def __enter__(self):
        self.prev = _MODE["softplus"]
        _MODE["softplus"] = True

    def __exit__(self, *a):
        _MODE["softplus"] = self.prev


def joint_logw_binary(net, V, H):
    """log weight of every (v,h) pair: (len V, len H)."""
    W, b, c = net["W"], net["b"], net["c"]
    return (V @ b)[:, None] + (H @ c)[None, :] + (V @ W.t()) @ H.t()


def joint_logw_purif(net, V, H, A):
    """log weight of every (v,h,a) triple: (len V, len H, len A)."""
    W, U, b, c, d = net["W"], net["U"], net["b"], net["c"], net["d"]
    vh = (V @ b)[:, None] + (H @ c)[None, :] + (V @ W.t()) @ H.t()
    va = (A @ d)[None, :] + (V @ U.t()) @ A.t()
    return vh[:, :, None] + va[:, None, :]


def log_prob_visible(net, V):
    """Unnormalised log marginal weight of visible states under the amplitude network
    (hidden and, for purification networks, auxiliary units summed out by enumeration)."""
    lm = log_marg(net, V)
    if "U" in net and _MODE["softplus"]:
        return lm + _LibSoftplus.apply(V @ net["U"].t() + net["d"][None, :]).sum(1)
    if "U" in net:
        A = bits(net["U"].shape[0])
        la = (A @ net["d"])[None, :] + (V @ net["U"].t()) @ A.t()
        lm = lm + torch.logsumexp(la, dim=1)
    return lm


def psi_ref(am, ph, V):
    la = log_marg(am, V)
    if ph is None:
        return torch.exp(0.5 * la).to(C128)
    lp = log_marg(ph, V)
    return torch.exp(0.5 * la).to(C128) * torch.exp(0.5j * lp.to(C128))


def purif_ref(am, ph, V):
    """Purified amplitude Psi[sigma, a] over all 2^na auxiliary configurations."""
    A = bits(am["U"].shape[0])
    la = log_marg(am, V)[:, None] + (A @ am["d"])[None, :] + (V @ am["U"].t()) @ A.t()
    lp = log_marg(ph, V)[:, None] + (A @ ph["d"])[None, :] + (V @ ph["U"].t()) @ A.t()
    return torch.exp(0.5 * la).to(C128) * torch.exp(0.5j * lp.to(C128))


def rho_ref(am, ph, V, Vp=None):
    P = purif_ref(am, ph, V)
    Q = P if Vp is None else purif_ref(am, ph, Vp)
    return P @ Q.conj().t()


PAULI = {
    "I": torch.eye(2, dtype=C128),
    "X": torch.tensor([[0, 1], [1, 0]], dtype=C128),
    "Y": torch.tensor([[0, -1j], [1j, 0]], dtype=C128),
    # library spin convention (observables.utils.to_pm1): outcome 0 -> -1, outcome 1 -> +1
    "Zlib": torch.tensor([[-1, 0], [0, 1]], dtype=C128),
}


def default_unitaries():
    """Independent statement of the documented default dictionary: rows = bras of the +1, -1 eigenvectors."""
    s = 1 / np.sqrt(2)
    return {
        "X": torch.tensor([[s, s], [s, -s]], dtype=C128),
        "Y": torch.tensor([[s, -1j * s], [s, 1j * s]], dtype=C128),
        "Z": torch.eye(2, dtype=C128),
    }


def kron_all(mats):
    U = torch.ones(1, 1, dtype=C128)
    for m in mats:
        U = torch.kron(U, m.to(C128))
    return U


def kron_U(udict, basis):
    return kron_all([udict[ch] for ch in basis])


def site_op(op, j, n):
    return kron_all([op if i == j else PAULI["I"] for i in range(n)])


def lib_to_c(t):
    """library real-pair tensor [2, ...] -> complex128 torch tensor."""
    t = t.detach().to(F64)
    return torch.complex(t[0], t[1])


def c_to_lib(z):
    z = torch.as_tensor(z).to(C128)
    return torch.stack([z.real, z.imag]).to(F64).contiguous()


def unitary_from_angles(a, b, g, d):
    """General 2x2 unitary  e^{i d} [[e^{i a} cos g, e^{i b} sin g], [-e^{-i b} sin g, e^{-i a} cos g]]."""
    a, b, g, d = (float(x) for x in (a, b, g, d))
    m = np.array([[np.exp(1j * a) * np.cos(g), np.exp(1j * b) * np.sin(g)],
                  [-np.exp(-1j * b) * np.sin(g), np.exp(-1j * a) * np.cos(g)]]) * np.exp(1j * d)
    return torch.tensor(m, dtype=C128)


def partial_trace(rho, n, keep):
    """Reduced density matrix on the sites in `keep` (sorted), big-endian site order."""
    keep = sorted(keep)
    r = rho.reshape([2] * (2 * n))
    letters = "abcdefghijklmnopqrstuvwxyz"
    row = list(letters[:n])
    col = list(letters[n:2 * n])
    for j in range(n):
        if j not in keep:
            col[j] = row[j]
    out = [row[j] for j in keep] + [col[j] for j in keep]
    eq = "".join(row) + "".join(col) + "->" + "".join(out)
    red = torch.einsum(eq, r)
    k = len(keep)
    return red.reshape(2 ** k, 2 ** k)
