import warnings; warnings.filterwarnings("ignore")
import numpy as np, torch, itertools
import qucumber
from qucumber.nn_states import PositiveWaveFunction, ComplexWaveFunction, DensityMatrix
from qucumber.utils import cplx, unitaries
from qucumber import observables as O
from probe2 import randomize, params, c
from refmodel import *
torch.manual_seed(3)
X = torch.tensor([[0,1],[1,0]],dtype=torch.complex128); Y = torch.tensor([[0,-1j],[1j,0]],dtype=torch.complex128)
Zl = torch.tensor([[-1,0],[0,1]],dtype=torch.complex128)  # library convention 0->-1
I2 = torch.eye(2,dtype=torch.complex128)
def site_op(P,i,n):
    M = torch.ones(1,1,dtype=torch.complex128)
    for j in range(n): M = torch.kron(M, P if j==i else I2)
    return M
for kind, mk in [("pos", lambda n: PositiveWaveFunction(n, n+1, gpu=False)), ("cplx", lambda n: ComplexWaveFunction(n, n+1)), ("dm", lambda n: DensityMatrix(n, n+1, n))]:
    for n in (1,2,3,4):
        s = mk(n); randomize(s, 1.0)
        V = s.generate_hilbert_space()
        if kind=="dm": rho = rho_ref(params(s.rbm_am), params(s.rbm_ph), V)
        else:
            psi = psi_ref(params(s.rbm_am), params(s.rbm_ph) if kind=="cplx" else None, V); rho = psi[:,None]*psi.conj()[None,:]
        rho = rho/rho.diagonal().real.sum()
        p = rho.diagonal().real
        out=[]
        for name,P,obs in [("X",X,O.SigmaX()),("Y",Y,O.SigmaY()),("Z",Zl,O.SigmaZ())]:
            M = sum(site_op(P,i,n) for i in range(n))/n
            exp = torch.trace(rho@M).real
            V0 = V.clone()
            got = (obs.apply(s, V)*p).sum()
            out.append((name, bool(torch.isclose(got,exp,rtol=1e-9,atol=1e-12)), torch.equal(V,V0)))
        for cdist in range(1,n+1):
            for per in (False,True):
                M = torch.zeros(2**n,2**n,dtype=torch.complex128)
                for i in range(n):
                    j=i+cdist
                    if per: j%=n
                    elif j>=n: continue
                    M = M + site_op(Zl,i,n)@site_op(Zl,j,n)
                M=M/n
                got = (O.NeighbourInteraction(periodic_bcs=per,c=cdist).apply(s,V)*p).sum()
                out.append((f"NI{cdist}{per}", bool(torch.isclose(got, torch.trace(rho@M).real, rtol=1e-9,atol=1e-12))))
        # swap
        for A in itertools.chain.from_iterable(itertools.combinations(range(n),r) for r in range(n+1)):
            A=list(A)
            B=[i for i in range(n) if i not in A]
            T = rho.reshape([2]*(2*n))
            # reduced density matrix on A
            perm = A+B+[n+i for i in A]+[n+i for i in B]
            R = T.permute(perm).reshape(2**len(A),2**len(B),2**len(A),2**len(B))
            rA = torch.einsum("abcb->ac",R)
            purity = torch.trace(rA@rA).real
            tot=0.
            for i in range(2**n):
                for j in range(2**n):
                    batch = torch.stack([V[i],V[j]])
                    val = O.SWAP(A).apply(s,batch)
                    tot += p[i]*p[j]*val[0]
            out.append((f"SW{A}", bool(torch.isclose(tot,purity,rtol=1e-8,atol=1e-12))))
        bad=[o for o in out if not all(o[1:])]
        print(kind,n,"checks",len(out),"bad",bad)
