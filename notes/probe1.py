import warnings; warnings.filterwarnings("ignore")
import numpy as np, torch, copy, traceback
import qucumber
from qucumber.nn_states import PositiveWaveFunction, ComplexWaveFunction, DensityMatrix
from qucumber.rbm import BinaryRBM, PurificationRBM
from qucumber.utils import cplx, unitaries
import qucumber.utils.training_statistics as ts
from qucumber import observables as O

def tryit(name, f):
    try:
        r = f(); print("OK  ", name, "->", r if not isinstance(r, torch.Tensor) or r.numel()<8 else r.shape)
    except Exception as e:
        print("EXC ", name, "->", type(e).__name__, e)

qucumber.set_random_seed(1)
# C20 module path
tryit("Pos(module)", lambda: PositiveWaveFunction(3, module=BinaryRBM(3,2,gpu=False), gpu=False).num_hidden)
tryit("Cplx(module)", lambda: ComplexWaveFunction(3, module=BinaryRBM(3,2,gpu=False)).num_hidden)
tryit("DM(module)", lambda: DensityMatrix(3, module=PurificationRBM(3,2,2)).num_hidden)
# C03 compute_exact_grads
p = PositiveWaveFunction(3, 2, gpu=False); sp = p.generate_hilbert_space()
tryit("Pos.compute_exact_grads", lambda: p.compute_exact_grads(sp[:4], sp))
tryit("Pos.compute_exact_gradients", lambda: p.compute_exact_gradients(sp[:4], sp)[0].shape)
# C11 second save
import tempfile, os
d = tempfile.mkdtemp()
c = ComplexWaveFunction(2)
md = {"a": 1}
tryit("save1", lambda: c.save(os.path.join(d,"m.pt"), md))
print("metadata after save:", list(md.keys()))
tryit("save2", lambda: c.save(os.path.join(d,"m.pt"), md))
# C10: NLL return type, KL DM self
dm = DensityMatrix(2,2,2)
for prm in list(dm.rbm_am.parameters())+list(dm.rbm_ph.parameters()):
    prm.data = torch.randn_like(prm.data)
dm.rbm_ph.aux_bias.data.zero_()
sp2 = dm.generate_hilbert_space(); Z = dm.normalization(sp2)
rho = dm.rho(sp2, sp2)/Z
for bases in (None, ["ZZ"], ["XX"], ["XY"], ["YZ"]):
    tryit(f"KL DM self bases={bases}", lambda: ts.KL(dm, rho, sp2, bases=bases))
tryit("fid DM self", lambda: (ts.fidelity(dm, rho, sp2), type(ts.fidelity(dm, rho, sp2))))
samples = sp2[[0,1,3,3]]
sb = np.array([list("ZZ"), list("XY"), list("ZZ"), list("YX")])
r = ts.NLL(dm, samples, sp2, sample_bases=sb); print("NLL type w/ bases:", type(r), r)
r = ts.NLL(dm, samples, sp2); print("NLL type no bases:", type(r), r)
c2 = ComplexWaveFunction(2)
psi = c2.psi(sp2)/c2.normalization(sp2).sqrt()
tryit("KL cplx self XY", lambda: ts.KL(c2, psi, sp2, bases=["XY","ZZ"]))
tryit("KL cplx self None", lambda: ts.KL(c2, psi, sp2))
# C04 explicit rho transposed?
U = lambda b: np.kron(*[cplx.numpy(dm.unitary_dict[x]) for x in b])
rn = cplx.numpy(rho)
for b in ["XY","YY","XX"]:
    got = unitaries.rotate_rho_probs(dm, b, sp2, rho=rho).numpy()
    exp = np.real(np.diag(U(b)@rn@U(b).conj().T))
    expT = np.real(np.diag(U(b)@rn.T@U(b).conj().T))
    got_model = unitaries.rotate_rho_probs(dm, b, sp2).numpy()/Z.item()
    print(b, "explicit==UrhoU+", np.allclose(got,exp), "explicit==U rho^T U+", np.allclose(got,expT), "model==", np.allclose(got_model,exp))
# C13 num_chains=1
tryit("stats chains=1", lambda: O.SigmaZ().statistics(p, num_samples=5, num_chains=1, burn_in=1))
tryit("stats chains=2,n=5", lambda: O.SigmaZ().statistics(p, num_samples=5, num_chains=2, burn_in=1))
tryit("stats n=1", lambda: O.SigmaZ().statistics(p, num_samples=1, burn_in=1))
