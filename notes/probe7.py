import warnings; warnings.filterwarnings("ignore")
import numpy as np, torch, tempfile, os, io, contextlib, csv
import qucumber
from qucumber.nn_states import PositiveWaveFunction, ComplexWaveFunction, DensityMatrix
from qucumber.callbacks import *
from qucumber.observables import ObservableBase, SigmaZ
from torch.nn.utils import parameters_to_vector as p2v
# C18 scripted
def run(seq, patience, tol, crit="absolute", period=1, ev_period=1):
    it=iter(seq)
    s=PositiveWaveFunction(1,1,gpu=False)
    me=MetricEvaluator(ev_period,{"m":lambda st: next(it)})
    es=EarlyStopping(period,tol,patience,me,"m",criterion=crit)
    ev=[]
    s.fit(torch.tensor([[0.],[1.]]),epochs=len(seq),pos_batch_size=2,callbacks=[me,es,LambdaCallback(on_epoch_end=lambda st,e:ev.append(e))])
    return es.last_epoch, ev[-1] if ev else None
print("p=1 seq 1,5,9 tol .5 ->", run([1.,5.,9.,9.,9.],1,0.5))
print("p=2 seq 1,5,5,9,9 tol .5 ->", run([1.,5.,5.,9.,9.4,9.4,9.4],2,0.5))
try: print("relative with zero:", run([0.,0.,1.],1,0.5,"relative"))
except Exception as e: print("EXC relative zero", type(e).__name__, e)
# scripted observable for variance
class Scripted(ObservableBase):
    def __init__(self, mus, ds): self.mus=list(mus); self.ds=list(ds); self.i=0; self.name="S"; self.symbol="S"
    def apply(self, nn_state, samples):
        mu,d=self.mus[self.i],self.ds[self.i]; self.i+=1
        return torch.tensor([mu-d,mu+d],dtype=torch.double)
s=PositiveWaveFunction(1,1,gpu=False)
ob=Scripted([1,2,2.1,2.1],[1,1,1,1])
oe=ObservableEvaluator(1,[ob],num_samples=2,num_chains=2,burn_in=0)
es=EarlyStopping(1,0.2,1,oe,"S",criterion="variance")
s.fit(torch.tensor([[0.],[1.]]),epochs=4,pos_batch_size=2,callbacks=[oe,es])
print("variance crit last_epoch",es.last_epoch, oe.S.mean, oe.S.variances, oe["S"]["std_error"], len(oe), oe.epochs)
# C12 stop at TS
ev=[]
s=PositiveWaveFunction(2,2,gpu=False)
cb=LambdaCallback(on_train_start=lambda s_:(ev.append("ts"),setattr(s_,"stop_training",True)),on_train_end=lambda s_:ev.append("te"),on_epoch_start=lambda s_,e:ev.append(("es",e)),on_epoch_end=lambda s_,e:ev.append(("ee",e)),on_batch_start=lambda s_,e,b:ev.append(("bs",e,b)),on_batch_end=lambda s_,e,b:ev.append(("be",e,b)))
buf=io.StringIO()
with contextlib.redirect_stdout(buf):
    s.fit(torch.tensor([[0.,1],[1,1],[0,0]]),epochs=3,pos_batch_size=1,callbacks=[cb],time=True)
print(ev, "| captured:", buf.getvalue().strip()[:60])
# empty range
ev.clear(); s=PositiveWaveFunction(2,2,gpu=False)
cb=LambdaCallback(on_train_start=lambda s_:ev.append("ts"),on_train_end=lambda s_:ev.append("te"))
s.fit(torch.tensor([[0.,1]]),epochs=0,starting_epoch=2,callbacks=[cb]); print("empty range",ev)
# C17 metric evaluator csv + model saver
d=tempfile.mkdtemp()
s=ComplexWaveFunction(2,1)
me=MetricEvaluator(2,{"a":lambda st: float(p2v(st.rbm_am.parameters()).sum()),"b":lambda st: 1.0},log=os.path.join(d,"log.csv"))
ms=ModelSaver(2,d,"m_{}.pt",metadata={"x":1})
data=torch.tensor([[0.,1],[1,1],[0,0]]); bases=np.array([list("ZZ"),list("XY"),list("ZZ")])
try:
    s.fit(data,epochs=5,pos_batch_size=2,input_bases=bases,callbacks=[me,ms],starting_epoch=1)
    print("saver ok", sorted(os.listdir(d)))
except Exception as e: print("EXC saver", type(e).__name__, e, sorted(os.listdir(d)))
print(open(os.path.join(d,"log.csv")).read())
print(me.a, me["b"], me.epochs, me.get_value("a",0), me.last, len(me), me.names)
try: me.zzz
except AttributeError as e: print("attr err ok")
