import warnings; warnings.filterwarnings("ignore")
import numpy as np, torch, time, tempfile, os
import qucumber
from qucumber.nn_states import PositiveWaveFunction, ComplexWaveFunction, DensityMatrix
from qucumber.utils import unitaries, data as qdata
from probe2 import randomize
# --- C05 scripted bernoulli
real_bern = torch.bernoulli
calls=[]
class Script:
    def __init__(self,us): self.us=list(us)
    def __call__(self,p,*a,out=None,**k):
        u=self.us.pop(0)
        calls.append(p.clone())
        r=(torch.as_tensor(u,dtype=p.dtype).expand_as(p) < p).to(p.dtype)
        if out is not None:
            out.copy_(r); return out
        return r
s=DensityMatrix(3,2,2); randomize(s)
torch.bernoulli=Script([0.3]*9)
v0=torch.tensor([[1.,0,1],[0,0,0]],dtype=torch.double)
try:
    vk=s.sample(3,initial_state=v0)
finally:
    torch.bernoulli=real_bern
print("calls",len(calls),[c.shape for c in calls[:3]],"v0 untouched",v0.tolist(),"vk",vk.tolist())
# --- C11 torch.load with metadata kinds
d=tempfile.mkdtemp()
c=ComplexWaveFunction(2,3,unitary_dict=unitaries.create_dict(H=torch.tensor([[[1.,1],[1,-1]],[[0.,0],[0,0]]])/np.sqrt(2)))
for md in [{}, {"a":1,"b":[1,2,{"c":torch.ones(2)}],"s":"str","f":1.5,"n":None,"t":(1,2)}, {"np":np.float64(2.0)}, {"arr":np.ones(2)}]:
    try:
        c.save(os.path.join(d,"x.pt"), dict(md)); 
        L=torch.load(os.path.join(d,"x.pt")); print("loaded keys",list(L.keys()))
        c2=ComplexWaveFunction.autoload(os.path.join(d,"x.pt")); print(" autoload ok",c2.num_hidden,list(c2.unitary_dict.keys()))
    except Exception as e: print("EXC",list(md.keys()),type(e).__name__,str(e)[:100])
# --- C19
p=PositiveWaveFunction(4,gpu=False)
print(p.generate_hilbert_space()[5].tolist(), p.subspace_vector(5).tolist(), unitaries._convert_basis_element_to_index(p.subspace_vector(5)))
try: p.generate_hilbert_space(21)
except Exception as e: print("EXC", e)
np.savetxt(os.path.join(d,"s.txt"), np.array([[0,1,1],[1,0,0]]),fmt="%d")
open(os.path.join(d,"b.txt"),"w").write("X Y Z\nZ Z Z\n")
open(os.path.join(d,"p.txt"),"w").write("0.1234567890123 -0.5\n0.25 0.75\n")
print(qdata.load_data(os.path.join(d,"s.txt"),os.path.join(d,"p.txt"),os.path.join(d,"b.txt")))
# single-row file
np.savetxt(os.path.join(d,"s1.txt"), np.array([[0,1,1]]),fmt="%d"); open(os.path.join(d,"b1.txt"),"w").write("X Y Z\n")
r=qdata.load_data(os.path.join(d,"s1.txt"),None,os.path.join(d,"b1.txt")); print([x.shape for x in r])
