import warnings; warnings.filterwarnings("ignore")
import numpy as np, torch
from qucumber import observables as O
x=O.SigmaX()
for expr in ["np.float64(2.0)*x","x*np.float64(2.0)","np.float64(2.0)+x","x-np.float64(1)","np.int64(2)*x","x*np.int64(2)","True*x","x*x","x*'a'","x+None","2-x","-(-x)","x/2"]:
    try:
        r=eval(expr); print(expr,"->",type(r).__name__, getattr(r,'left',None).__class__.__name__, repr(r))
    except Exception as e: print(expr,"EXC",type(e).__name__,e)
