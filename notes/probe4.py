import warnings; warnings.filterwarnings("ignore")
import numpy as np, torch, time
import qucumber
from qucumber.nn_states import PositiveWaveFunction, ComplexWaveFunction, DensityMatrix
from qucumber.callbacks import *
from torch.nn.utils import parameters_to_vector as p2v
torch.manual_seed(0)
class RecSGD(torch.optim.SGD):
    log=[]
    def step(self, closure=None):
        before=[p.data.clone() for g in self.param_groups for p in g['params']]
        grads=[p.grad.clone() for g in self.param_groups for p in g['params']]
        r=super().step(closure)
        after=[p.data.clone() for g in self.param_groups for p in g['params']]
        RecSGD.log.append((before,grads,after,self.param_groups[0]['lr']))
        return r
for mk,name in [(lambda: PositiveWaveFunction(3,2,gpu=False),"pos"),(lambda: ComplexWaveFunction(3,2),"cplx"),(lambda: DensityMatrix(3,2,2),"dm")]:
    s=mk()
    N=7
    data=torch.bernoulli(torch.full((N,3),0.5)).double()
    bases=np.array([list(np.random.choice(list("XYZ"),3)) for _ in range(N)]); bases[0]=list("ZZZ"); bases[3]=list("ZZZ")
    calls=[]
    orig=s.compute_batch_gradients
    def wrapped(k,*batch,_orig=orig):
        calls.append([b.clone() if isinstance(b,torch.Tensor) else b.copy() for b in batch]); return _orig(k,*batch)
    s.compute_batch_gradients=wrapped
    ev=[]
    cb=LambdaCallback(on_train_start=lambda s:ev.append("ts"),on_train_end=lambda s:ev.append("te"),on_epoch_start=lambda s,e:ev.append(("es",e)),on_epoch_end=lambda s,e:ev.append(("ee",e)),on_batch_start=lambda s,e,b:ev.append(("bs",e,b)),on_batch_end=lambda s,e,b:ev.append(("be",e,b)))
    RecSGD.log=[]
    t=time.time()
    kw=dict(input_bases=bases) if name!="pos" else {}
    s.fit(data,epochs=2,pos_batch_size=3,neg_batch_size=2,k=2,lr=0.1,callbacks=[cb],optimizer=RecSGD,scheduler=torch.optim.lr_scheduler.StepLR,scheduler_args=dict(step_size=1,gamma=0.5),**kw)
    print(name,"time",round(time.time()-t,3),"calls",len(calls),"steps",len(RecSGD.log),"lrs",[l[3] for l in RecSGD.log])
    print(" batch shapes",[(c[0].shape[0],c[1].shape[0]) for c in calls])
    print(" events",ev[:6],"...",ev[-3:])
    b,g,a,lr=RecSGD.log[0]
    print(" sgd exact:",all(torch.equal(ai,bi-lr*gi) for ai,bi,gi in zip(a,b,g)))
# determinism
def run(seed):
    qucumber.set_random_seed(seed,quiet=True)
    s=DensityMatrix(2,2,2)
    data=s.sample(3,num_samples=6)
    bases=np.array([list("ZZ"),list("XY"),list("ZZ"),list("YX"),list("ZX"),list("ZZ")])
    s.fit(data,epochs=2,pos_batch_size=4,input_bases=bases,lr=0.1)
    return torch.cat([p2v(getattr(s,n).parameters()) for n in s.networks]), data
a,da=run(5); np.random.seed(1); import random; random.seed(9); np.random.rand(10)
b,db=run(5); c_,dc=run(6)
print("determinism same:",torch.equal(a,b),torch.equal(da,db),"diff seed differs:",not torch.equal(a,c_))
print("---- dm diff")
for (b,g,a,lr) in RecSGD.log[:3]:
    print([float((ai-(bi-lr*gi)).abs().max()) for ai,bi,gi in zip(a,b,g)], [torch.equal(ai, bi.add(gi,alpha=-lr)) for ai,bi,gi in zip(a,b,g)])
