import warnings; warnings.filterwarnings("ignore")
import numpy as np, torch, itertools
import qucumber
from qucumber.nn_states import PositiveWaveFunction, ComplexWaveFunction, DensityMatrix
from qucumber.utils import cplx, unitaries
from refmodel import *
torch.manual_seed(0)
def randomize(state, scale=1.5):
    for net in state.networks:
        for p in getattr(state, net).parameters():
            p.data = scale*torch.randn_like(p.data)
    if isinstance(state, DensityMatrix):
        state.rbm_ph.aux_bias.data.zero_()
def params(rbm, grad=False):
    names = ["weights","visible_bias","hidden_bias"] if hasattr(rbm,"weights") else ["weights_W","weights_U","visible_bias","hidden_bias","aux_bias"]
    return [getattr(rbm,n).data.clone().requires_grad_(grad) for n in names]
def c(t): return torch.complex(t[0], t[1])
UD = {k: c(v) for k,v in unitaries.create_dict().items()}

for n,nh in [(1,1),(2,3),(3,2),(4,5)]:
    s = ComplexWaveFunction(n, nh); randomize(s)
    V = s.generate_hilbert_space()
    W,b,cc = params(s.rbm_am); Wp,bp,cp = params(s.rbm_ph)
    ref = psi_ref((W,b,cc),(Wp,bp,cp),V)
    got = c(s.psi(V))
    print("cplx psi", n, nh, torch.allclose(got, ref, rtol=1e-10, atol=0), "Z", torch.allclose(s.normalization(V), (ref.abs()**2).sum()))
for n,nh,na in [(1,1,1),(2,3,2),(3,2,3)]:
    s = DensityMatrix(n, nh, na); randomize(s)
    V = s.generate_hilbert_space()
    ref = rho_ref(params(s.rbm_am), params(s.rbm_ph), V)
    got = c(s.rho(V,V))
    print("dm rho", n,nh,na, torch.allclose(got, ref, rtol=1e-9, atol=0), "diag", torch.allclose(s.probability(V), ref.diagonal().real), "Z", torch.allclose(s.normalization(V), ref.diagonal().real.sum()))

# gradients
def nll_ref(kind, am, ph, V, idx, bases):
    if kind=="dm":
        rho = rho_ref(am, ph, V); Z = rho.diagonal().real.sum()
    else:
        psi = psi_ref(am, ph, V); Z = (psi.abs()**2).sum()
    tot = 0.
    for i,bs in zip(idx, bases):
        U = kron_U(UD, bs)
        if kind=="dm":
            p = (U@rho@U.conj().t()).diagonal().real[i]
        else:
            p = ((U@psi).abs()**2)[i]
        tot = tot - torch.log(p/Z)
    return tot/len(idx)

for kind, mk in [("pos", lambda n: PositiveWaveFunction(n, n+1, gpu=False)), ("cplx", lambda n: ComplexWaveFunction(n, n+1)), ("dm", lambda n: DensityMatrix(n, n+1, n))]:
    for n in (1,2,3):
        s = mk(n); randomize(s, 1.0)
        V = s.generate_hilbert_space()
        N = 7
        idx = torch.randint(0, 2**n, (N,))
        bases = ["".join(np.random.choice(list("XYZ"), n)) for _ in range(N)]
        if kind=="pos": bases = ["Z"*n]*N
        bases[0] = "Z"*n
        am = params(s.rbm_am, True); ph = params(s.rbm_ph, True) if kind!="pos" else None
        L = nll_ref(kind, am, ph, V, idx, bases)
        L.backward()
        ref_am = torch.cat([p.grad.reshape(-1) for p in am])
        barr = np.array([list(b) for b in bases])
        if kind=="pos":
            g = s.compute_exact_gradients(V[idx], V)
        else:
            g = s.compute_exact_gradients(V[idx], V, bases_batch=barr)
        print(kind, n, "am grad ok", torch.allclose(g[0], ref_am, rtol=1e-6, atol=1e-7), float((g[0]-ref_am).abs().max()))
        if kind!="pos":
            ref_ph = torch.cat([(p.grad if p.grad is not None else torch.zeros_like(p)).reshape(-1) for p in ph])
            print(kind, n, "ph grad ok", torch.allclose(g[1], ref_ph, rtol=1e-6, atol=1e-7), float((g[1]-ref_ph).abs().max()))
