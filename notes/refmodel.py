"""Scratch reference model (brute force over hidden/aux units), torch complex128 + autograd."""
import itertools, numpy as np, torch
torch.set_default_dtype(torch.float64)

def bits(n):
    return torch.tensor(list(itertools.product([0.,1.], repeat=n)), dtype=torch.float64).reshape(2**n, n)

def log_marg_binary(W,b,c,V):
    # log sum_h exp(b.v + c.h + h W v), brute force over h
    H = bits(W.shape[0])                     # (2^nh, nh)
    e = (V@b)[:,None] + (H@c)[None,:] + V@W.t()@H.t()   # (D, 2^nh)
    return torch.logsumexp(e, dim=1)

def psi_ref(am, ph, V):
    la = log_marg_binary(*am, V)
    if ph is None:
        return torch.exp(0.5*la).to(torch.complex128)
    lp = log_marg_binary(*ph, V)
    return torch.exp(0.5*la) * torch.exp(0.5j*lp)

def purif_ref(am, ph, V):
    # am = (W,U,b,c,d) ; returns Psi[sigma, a] complex
    W,U,b,c,d = am; Wp,Up,bp,cp,dp = ph
    A = bits(U.shape[0])
    la = log_marg_binary(W,b,c,V)[:,None] + (A@d)[None,:] + V@U.t()@A.t()
    lp = log_marg_binary(Wp,bp,cp,V)[:,None] + (A@dp)[None,:] + V@Up.t()@A.t()
    return torch.exp(0.5*la)*torch.exp(0.5j*lp)

def rho_ref(am, ph, V):
    P = purif_ref(am, ph, V)
    return P @ P.conj().t()

def kron_U(udict, basis):
    U = torch.ones(1,1,dtype=torch.complex128)
    for ch in basis:
        U = torch.kron(U, udict[ch])
    return U
