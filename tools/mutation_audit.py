#!/usr/bin/env python3
"""Sensitivity audit: apply deliberate breakages to a scratch copy of /repo and confirm the check fails.

usage: tools/mutation_audit.py [--only ID[,ID..]] [--mutant name] [--tier quick] [--keep-going] [--tests]
Mutants live in tools/mutants.json: {name, property (or list), file, old, new, note}.  `old` must occur exactly
once in `file`.  The scratch copy is created under /tmp and removed afterwards.  Results: tools/mutation_report.json.
--tests additionally runs the repository's own pytest suite on the mutant (slow) to confirm it still passes.
"""
import argparse
import json
import os
import shutil
import subprocess
import sys
import tempfile
import time

HERE = os.path.dirname(os.path.dirname(os.path.abspath(__file__)))
REPO = "/repo"


def main():
    ap = argparse.ArgumentParser()
    ap.add_argument("--only")
    ap.add_argument("--mutant")
    ap.add_argument("--tier", default="quick")
    ap.add_argument("--tests", action="store_true")
    ap.add_argument("--seed", default="1")
    a = ap.parse_args()
    muts = json.load(open(os.path.join(HERE, "tools", "mutants.json")))
    only = set(a.only.split(",")) if a.only else None
    report_path = os.path.join(HERE, "tools", "mutation_report.json")
    report = json.load(open(report_path)) if os.path.exists(report_path) else {}
    rc = 0
    for m in muts:
        props = m["property"] if isinstance(m["property"], list) else [m["property"]]
        if a.mutant and m["name"] != a.mutant:
            continue
        if only and not (only & set(props)):
            continue
        tmp = tempfile.mkdtemp(prefix="vf_mut_")
        try:
            dst = os.path.join(tmp, "repo")
            shutil.copytree(REPO, dst, ignore=shutil.ignore_patterns(".git", "__pycache__", "*.pyc", "docs", "examples"))
            edits = m.get("edits") or [{"file": m["file"], "old": m["old"], "new": m["new"]}]
            bad = False
            for e in edits:
                fp = os.path.join(dst, e["file"])
                src = open(fp).read()
                if src.count(e["old"]) != 1:
                    print(f"{m['name']}: SKIP (pattern occurs {src.count(e['old'])}x in {e['file']})")
                    report[m["name"]] = {"status": "pattern-mismatch"}
                    rc = 1
                    bad = True
                    break
                open(fp, "w").write(src.replace(e["old"], e["new"]))
            if bad:
                continue
            tests_ok = None
            if a.tests:
                r = subprocess.run(["/venv/bin/python", "-m", "pytest", "-q", "-x", "-p", "no:cacheprovider",
                                    "--continue-on-collection-errors", "--ignore=tests/test_grads.py",
                                    "--ignore=tests/test_training.py"], cwd=dst, capture_output=True, text=True)
                tests_ok = r.returncode == 0
            for prop in props:
                if only and prop not in only:
                    continue
                t0 = time.time()
                env = dict(os.environ, VERIF_REPO=dst, VERIF_SEED=a.seed, VERIF_OUT=tmp)
                r = subprocess.run([os.path.join(HERE, "check"), prop, a.tier], env=env, capture_output=True, text=True)
                dt = time.time() - t0
                killed = r.returncode == 1 and "VIOLATION property=" + prop in r.stdout
                first = [ln for ln in r.stdout.splitlines() if ln.strip().startswith("violation in")][:1]
                status = "killed" if killed else ("harness-error" if r.returncode == 2 else "SURVIVED")
                print(f"{m['name']:45s} {prop} {status:13s} {dt:5.1f}s tests_ok={tests_ok} {first[0].strip()[:150] if first else ''}")
                if status != "killed":
                    rc = 1
                    if r.returncode == 2:
                        print(r.stdout[-1500:])
                report[f"{m['name']}@{prop}"] = {"status": status, "wall_s": round(dt, 1), "tests_ok": tests_ok,
                                                  "first": first[0].strip()[:300] if first else None, "note": m.get("note", "")}
        finally:
            shutil.rmtree(tmp, ignore_errors=True)
    json.dump(report, open(report_path, "w"), indent=1, sort_keys=True)
    # the audit writes replays/evidence as a side effect of running the checks on mutants: restore evidence
    return rc


if __name__ == "__main__":
    sys.exit(main())
