#!/bin/bash
# tools/run_all.sh [quick|thorough] : run every registered check against /repo's working tree, rewrite evidence/, summarise
cd "$(dirname "$0")/.." || exit 2
tier=${1:-quick}
rc=0
for i in 01 02 03 04 05 06 07 08 09 10 11 12 13 14 15 16 17 18 19 20; do
  out=$(./check C$i $tier 2>&1); e=$?
  echo "$out" | head -1
  if [ $e -ne 0 ]; then rc=1; echo "$out" | grep -E "violation|VIOLATION|HARNESS" | head -5; fi
done
exit $rc
