#!/usr/bin/env python3
"""Regenerates MANIFEST.json from the table below (kept in one place so the manifest is always valid)."""
import json, os
HERE = os.path.dirname(os.path.dirname(os.path.abspath(__file__)))
CHECKS = json.load(open(os.path.join(HERE, "tools", "manifest_table.json")))
m = {
    "version": 1,
    "setup_cmd": "./setup.sh",
    "hooks": {
        "guard": "QUCUMBER_VERIF",
        "enable": "no source hooks exist: every property is observed through the public API (instance-level wrappers, a recording optimizer, user callbacks); the checks export QUCUMBER_VERIF=1 but the library never reads it",
        "baseline_off_cmd": "cd /repo && /venv/bin/python -m pytest -ra -q -p no:cacheprovider --timeout=900 --continue-on-collection-errors",
        "source_commits": [],
        "add_only": True,
    },
    "engines": [{
        "name": "vf", "path": "vf/",
        "serves_properties": [c["property_id"] for c in CHECKS["checks"]],
        "kind_free_text": "Hypothesis 6.168 property-based testing (generated inputs / op programs / histories, seeded by VERIF_SEED, sharded over 16 processes) + itertools enumeration of finite sub-domains, against an independent brute-force reference model (vf/refmodel.py); failures shrink to a JSON replay file",
    }],
    "checks": [],
    "not_applicable": CHECKS.get("not_applicable", []),
    "notes": CHECKS.get("notes", ""),
}
claimed = {c["property_id"] for c in CHECKS["checks"]}
listed = {n["property_id"] for n in m["not_applicable"]}
for line in open(os.path.join(HERE, "properties.jsonl")):
    pid = json.loads(line)["id"]
    if pid not in claimed and pid not in listed:
        m["not_applicable"].append({"property_id": pid, "reason": "not claimed yet: the generated check for this property is still under construction (DESIGN.md section 4 describes the planned generator and oracle); property-based testing does apply to it"})
for c in CHECKS["checks"]:
    pid = c["property_id"]
    m["checks"].append({
        "property_id": pid,
        "quick_cmd": f"./check {pid} quick",
        "thorough_cmd": f"./check {pid} thorough",
        "evidence_file": f"evidence/{pid}.json",
        "replay_cmd_template": "./check --replay {path}",
        "engine": "vf",
        "level_claimed": {"category": "exploration", "text": c["text"], "design_ref": c.get("design_ref", "DESIGN.md §4 " + pid)},
        "level_note": c["note"],
        "technique": c["technique"],
    })
json.dump(m, open(os.path.join(HERE, "MANIFEST.json"), "w"), indent=1)
print("wrote MANIFEST.json with", len(m["checks"]), "checks")
