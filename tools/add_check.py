#!/usr/bin/env python3
"""tools/add_check.py ID 'technique' 'text' 'note'  - add/replace a row of tools/manifest_table.json and regenerate MANIFEST.json"""
import json, os, sys, subprocess
HERE = os.path.dirname(os.path.dirname(os.path.abspath(__file__)))
p = os.path.join(HERE, "tools", "manifest_table.json")
t = json.load(open(p))
pid, tech, text, note = sys.argv[1:5]
t["checks"] = [c for c in t["checks"] if c["property_id"] != pid] + [{"property_id": pid, "technique": tech, "text": text, "note": note}]
t["checks"].sort(key=lambda c: c["property_id"])
t["not_applicable"] = [n for n in t.get("not_applicable", []) if n["property_id"] != pid]
json.dump(t, open(p, "w"), indent=1)
subprocess.check_call([sys.executable, os.path.join(HERE, "tools", "make_manifest.py")])
