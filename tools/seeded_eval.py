#!/usr/bin/env python3
"""Evaluate seeded changes (written by independent sub-agents) against the checks.

usage: tools/seeded_eval.py <dir-with-patch.diff,demo.py,meta.json> [...]  [--tier quick] [--props C01,C02] [--no-tests]

For each directory: copy /repo to a scratch dir under /tmp, apply patch.diff there, (1) run the repository's collectable test
suite on the copy (must pass), (2) run demo.py against the copy (must exit 1) and against /repo (must exit 0), (3) run the
property's check (and any extra --props) with VERIF_REPO=<copy>; report detected / missed. The scratch copy is removed.
Results are appended to tools/seeded_report.json.
"""
import argparse
import json
import os
import shutil
import subprocess
import sys
import tempfile
import time

HERE = os.path.dirname(os.path.dirname(os.path.abspath(__file__)))


def run(cmd, **kw):
    return subprocess.run(cmd, capture_output=True, text=True, **kw)


def main():
    ap = argparse.ArgumentParser()
    ap.add_argument("dirs", nargs="+")
    ap.add_argument("--tier", default="quick")
    ap.add_argument("--props")
    ap.add_argument("--no-tests", action="store_true")
    ap.add_argument("--seed", default="1")
    ap.add_argument("--report", help="report file (default tools/seeded_report.json); use separate files for parallel runs")
    a = ap.parse_args()
    rp = a.report or os.path.join(HERE, "tools", "seeded_report.json")
    report = json.load(open(rp)) if os.path.exists(rp) else {}
    for d in a.dirs:
        d = os.path.abspath(d)
        name = os.path.basename(d.rstrip("/"))
        meta = json.load(open(os.path.join(d, "meta.json")))
        prop0 = meta.get("property") or meta["breaks_property"]
        props = a.props.split(",") if a.props else [prop0]
        tmp = tempfile.mkdtemp(prefix="vf_seed_")
        res = {"property": prop0, "summary": meta.get("summary"), "needs": meta.get("needs_to_manifest")}
        try:
            dst = os.path.join(tmp, "repo")
            shutil.copytree("/repo", dst, ignore=shutil.ignore_patterns(".git", "__pycache__", "*.pyc", "docs", "examples"))
            r = run(["patch", "-p1", "-i", os.path.join(d, "patch.diff")], cwd=dst)
            res["applies"] = r.returncode == 0
            if r.returncode != 0:
                print(f"{name}: patch does not apply: {r.stdout[-300:]}{r.stderr[-300:]}")
                report[name] = res
                continue
            if not a.no_tests:
                r = run(["/venv/bin/python", "-m", "pytest", "-q", "-x", "-p", "no:cacheprovider", "--continue-on-collection-errors",
                         "--ignore=tests/test_grads.py", "--ignore=tests/test_training.py"], cwd=dst)
                res["tests_pass"] = r.returncode == 0
                res["tests_tail"] = r.stdout.strip().splitlines()[-1] if r.stdout.strip() else ""
            env = dict(os.environ, QUCUMBER_PATH=dst, PYTHONPATH="")
            r1 = run(["/venv/bin/python", os.path.join(d, "demo.py")], env=env, cwd=tmp)
            env0 = dict(os.environ, QUCUMBER_PATH="/repo", PYTHONPATH="")
            r0 = run(["/venv/bin/python", os.path.join(d, "demo.py")], env=env0, cwd=tmp)
            res["demo_with_patch_exit"] = r1.returncode
            res["demo_without_patch_exit"] = r0.returncode
            res["checks"] = {}
            for prop in props:
                t0 = time.time()
                env = dict(os.environ, VERIF_REPO=dst, VERIF_OUT=tmp, VERIF_SEED=a.seed)
                r = run([os.path.join(HERE, "check"), prop, a.tier], env=env)
                viol = [ln.strip() for ln in r.stdout.splitlines() if ln.strip().startswith("violation in")]
                res["checks"][prop] = {"exit": r.returncode, "detected": r.returncode == 1 and "VIOLATION property=" + prop in r.stdout,
                                       "wall_s": round(time.time() - t0, 1), "first": viol[0][:300] if viol else None, "tier": a.tier}
                if r.returncode == 2:
                    res["checks"][prop]["harness_error"] = r.stdout[-800:]
            det = any(c["detected"] for c in res["checks"].values())
            print(f"{name:8s} applies={res['applies']} tests_pass={res.get('tests_pass')} demo(with/without)={r1.returncode}/{r0.returncode} "
                  f"detected={det} :: " + "; ".join(f"{p}:{'DET' if c['detected'] else 'miss(exit %d)' % c['exit']} {c['first'] or ''}"[:220] for p, c in res["checks"].items()))
        finally:
            shutil.rmtree(tmp, ignore_errors=True)
        report[name] = res
        json.dump(report, open(rp, "w"), indent=1, sort_keys=True)
    return 0


if __name__ == "__main__":
    sys.exit(main())
